(* C07 for scancode set 2 on ext *)
From Coq Require Import NArith List String.
From PK Require Import Base.Outcome Base.Machine Base.Reach Gen.Types Impl Ext.Set2 ExtI.Scan Check.Scan Check.C07.
Import ListNotations.
Local Open Scope N_scope.
Notation I := ext_set2.
Notation s0 := 0.
Notation key := (fun s : N => s).

Lemma inv : inv_C07 I key s0 = true. Proof. vm_compute. reflexivity. Qed.
Lemma res : resets_C07 I key s0 = true. Proof. vm_compute. reflexivity. Qed.
Lemma quiet : quiet_C07 I key s0 3 = true. Proof. vm_compute. reflexivity. Qed.
(* the bound is tight: 2 consecutive silent answers do occur *)
Lemma quiet_tight : quiet_C07 I key s0 2 = false. Proof. vm_compute. reflexivity. Qed.

Theorem C07_resync : forall h b t, Forall byte (h ++ [b]) -> Forall byte t ->
  forall sh oh o, run (scan_machine I) s0 (h ++ [b]) = Ret (sh, oh ++ [o]) -> List.length oh = List.length h ->
  silent_sc o = false ->
  sh = s0 /\
  run (scan_machine I) s0 ((h ++ [b]) ++ t) =
    match run (scan_machine I) s0 t with Ret (s', ot) => Ret (s', (oh ++ [o]) ++ ot) | Panic => Panic end.
Proof. exact (C07_resync_sound I key s0 inv res). Qed.

Theorem C07_silence : forall h b, Forall byte h -> Forall byte b -> List.length b = 3%nat ->
  exists sh oh s' ob, run (scan_machine I) s0 h = Ret (sh, oh) /\ run (scan_machine I) sh b = Ret (s', ob) /\
                      existsb (fun o => negb (silent_sc o)) ob = true.
Proof. exact (C07_silence_sound I key s0 inv 3 quiet). Qed.

Print Assumptions C07_resync.
Print Assumptions C07_silence.
Eval vm_compute in ("states"%string, N.of_nat (List.length (sc_states I key s0))).
Eval vm_compute in ("evaluations"%string, 256 * N.of_nat (List.length (sc_states I key s0))).
