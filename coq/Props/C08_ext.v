(* C08 on the tables of the compiled crate (debug profile: overflow checks and debug assertions on;
   a panic caught by catch_unwind is the table entry Panic).  Self-contained, like Props/C08.v. *)
From Coq Require Import NArith Bool List String.
From PK Require Import Base.Outcome Base.Finite Base.Machine Base.Reach Gen.Types Impl Spec.Frame Spec.Mods
  Ext.Ps2 ExtI.Ps2 Ext.Set1 Ext.Set2 ExtI.Scan Ext.Lay ExtI.Lay Ext.Event ExtI.Ev Check.Scan Check.Ps2M Check.C07 Check.Lay Check.EvImpl Check.C08.
Import ListNotations.
Local Open Scope N_scope.

Lemma inv1 : inv_C07 ext_set1 (fun s : N => s) 0 = true. Proof. vm_compute. reflexivity. Qed.
Lemma inv2 : inv_C07 ext_set2 (fun s : N => s) 0 = true. Proof. vm_compute. reflexivity. Qed.
Theorem C08_set1_ext : forall bs, Forall byte bs -> exists s' os, run (scan_machine ext_set1) 0 bs = Ret (s', os).
Proof. exact (C08_scancodes ext_set1 _ _ _ inv1). Qed.
Theorem C08_set2_ext : forall bs, Forall byte bs -> exists s' os, run (scan_machine ext_set2) 0 bs = Ret (s', os).
Proof. exact (C08_scancodes ext_set2 _ _ _ inv2). Qed.
Lemma inv_bits : inv_ps2 ext_ps2 (fun s : N => s) 0 = true. Proof. vm_compute. reflexivity. Qed.
Theorem C08_bits_ext : forall ops : list bit_op, exists s' os, run (ps2_machine ext_ps2) 0 ops = Ret (s', os).
Proof. exact (C08_bitops ext_ps2 _ _ inv_bits). Qed.
Lemma words_ok : panicking_words ext_ps2 0 = []. Proof. vm_compute. reflexivity. Qed.
Theorem C08_word_ext : forall s w, w < 65536 -> ps_add_word ext_ps2 s w <> Panic.
Proof. exact (C08_words ext_ps2 0 (fun s w => eq_refl) words_ok). Qed.
(* the event decoder with the (non-panicking) recording layout: no step or mode change panics in any state
   the implementation can be in, and those states are closed under every step *)
Lemma ev_ok : panicking_events ext_ev = []. Proof. vm_compute. reflexivity. Qed.
Definition C08_events_ext := C08_events ext_ev ev_ok.
Lemma lay_ok : ok_lay_C08 ext_lay = true. Proof. vm_compute. reflexivity. Qed.
Definition C08_layouts_ext := C08_layouts ext_lay lay_ok.
Lemma preds_ok : filter (bad_pred_C08 ext_preds) all_Modifiers = []. Proof. vm_compute. reflexivity. Qed.
Print Assumptions C08_set1_ext.
Print Assumptions C08_bits_ext.
Print Assumptions C08_word_ext.
Print Assumptions C08_events_ext.
Print Assumptions C08_layouts_ext.
