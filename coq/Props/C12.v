(* C12 on the model regenerated from the source (G_syn) *)
From Coq Require Import NArith Bool List String.
From PK Require Import Base.Outcome Base.Finite Gen.Types Impl Spec.Known Gen.All Syn.Lay Syn.Preds Check.Lay Check.C12.
Import ListNotations.
Notation LI := syn_lay.
Notation PI := syn_preds.

Lemma ok12 : cex_C12 LI = []. Proof. vm_compute. reflexivity. Qed.

Definition C12 := C12_sound LI ok12.
Check C12.
Print Assumptions C12.
Eval vm_compute in ("evaluations"%string, (10 * 124 * 512 * 2)%N).
