(* C11 on the tables of the compiled crate (G_ext) *)
From Coq Require Import NArith Bool List String.
From PK Require Import Base.Outcome Base.Finite Gen.Types Impl Spec.Known Ext.Lay ExtI.Lay Check.Lay Check.C11.
Import ListNotations.
Notation LI := ext_lay.
Notation PI := ext_preds.

Lemma ok11 : ok_C11 LI = true. Proof. vm_compute. reflexivity. Qed.
Lemma okp : cex_pred PI = []. Proof. vm_compute. reflexivity. Qed.

Definition C11_ext := C11_sound LI ok11.
Check C11_ext.
Print Assumptions C11_ext.
Definition C11_predicates_ext := preds_sound PI okp.
Check C11_predicates_ext.
Print Assumptions C11_predicates_ext.
