(* C04 on the tables of the compiled crate *)
From Coq Require Import NArith Bool List String.
From PK Require Import Base.Outcome Gen.Types Impl Spec.Mods Ext.Event ExtI.Ev Check.EvImpl.
Import ListNotations.

Lemma C04_ext_step : cex_step ext_ev = []. Proof. vm_compute. reflexivity. Qed.
Lemma C04_ext_mode : cex_mode ext_ev = []. Proof. vm_compute. reflexivity. Qed.
Lemma C04_ext_init : cex_init ext_ev = []. Proof. vm_compute. reflexivity. Qed.
Theorem C04_ext : forall hc0 ops,
  exists s0, ev_init ext_ev hc0 = Ret s0 /\
  exists rs, impl_run ext_ev s0 ops = Ret ((after (eevents ops), last_mode hc0 ops), rs).
Proof. exact (C04_sound ext_ev C04_ext_step C04_ext_mode C04_ext_init). Qed.
Print Assumptions C04_ext.
Eval vm_compute in ("transitions"%string, N.of_nat (List.length all_steps)).
