(* C07 for scancode set 2 on syn *)
From Coq Require Import NArith List String.
From PK Require Import Base.Outcome Base.Machine Base.Reach Gen.Types Impl Syn.Set2 Check.Scan Check.C07.
Import ListNotations.
Local Open Scope N_scope.
Notation I := syn_set2.
Notation key := ScancodeSet2_hash.

Lemma inv : at_init I false (fun s0 => inv_C07 I key s0) = true. Proof. vm_compute. reflexivity. Qed.
Lemma res : at_init I false (fun s0 => resets_C07 I key s0) = true. Proof. vm_compute. reflexivity. Qed.
Lemma quiet : at_init I false (fun s0 => quiet_C07 I key s0 3) = true. Proof. vm_compute. reflexivity. Qed.
(* the bound is tight: 2 consecutive silent answers do occur *)
Lemma quiet_tight : at_init I true (fun s0 => quiet_C07 I key s0 2) = false. Proof. vm_compute. reflexivity. Qed.

(* stated for the decoder's own initial state s0, whatever fields it has *)
Theorem C07_resync : forall s0, sc_init I = Ret s0 ->
  forall h b t, Forall byte (h ++ [b]) -> Forall byte t ->
  forall sh oh o, run (scan_machine I) s0 (h ++ [b]) = Ret (sh, oh ++ [o]) -> List.length oh = List.length h ->
  silent_sc o = false ->
  sh = s0 /\
  run (scan_machine I) s0 ((h ++ [b]) ++ t) =
    match run (scan_machine I) s0 t with Ret (s', ot) => Ret (s', (oh ++ [o]) ++ ot) | Panic => Panic end.
Proof.
  intros s0 Hi. pose proof inv as Hv. pose proof res as Hr.
  rewrite (at_init_elim _ I _ _ s0 Hi) in Hv. rewrite (at_init_elim _ I _ _ s0 Hi) in Hr. exact (C07_resync_sound I key s0 Hv Hr).
Qed.

Theorem C07_silence : forall s0, sc_init I = Ret s0 ->
  forall h b, Forall byte h -> Forall byte b -> List.length b = 3%nat ->
  exists sh oh s' ob, run (scan_machine I) s0 h = Ret (sh, oh) /\ run (scan_machine I) sh b = Ret (s', ob) /\
                      existsb (fun o => negb (silent_sc o)) ob = true.
Proof.
  intros s0 Hi. pose proof inv as Hv. pose proof quiet as Hq.
  rewrite (at_init_elim _ I _ _ s0 Hi) in Hv. rewrite (at_init_elim _ I _ _ s0 Hi) in Hq. exact (C07_silence_sound I key s0 Hv 3 Hq).
Qed.
Example init_exists : exists s0, sc_init I = Ret s0. Proof. eexists; reflexivity. Qed.

Print Assumptions C07_resync.
Print Assumptions C07_silence.
Eval vm_compute in ("states"%string, at_init I 0%N (fun s0 => N.of_nat (List.length (sc_states I key s0)))).
Eval vm_compute in ("evaluations"%string, at_init I 0%N (fun s0 => 256 * N.of_nat (List.length (sc_states I key s0)))).
