(* C09 on the model regenerated from the source (G_syn) *)
From Coq Require Import NArith Bool List String.
From PK Require Import Base.Outcome Base.Finite Gen.Types Impl Spec.Known Gen.All Syn.Lay Syn.Preds Check.Lay Check.C09.
Import ListNotations.
Notation LI := syn_lay.
Notation PI := syn_preds.

Lemma ok09 : ok_C09 LI = true. Proof. vm_compute. reflexivity. Qed.

Definition C09 := C09_sound LI ok09.
Check C09.
Print Assumptions C09.
Definition C09_inert_ := C09_inert LI ok09.
Check C09_inert_.
Print Assumptions C09_inert_.
Eval vm_compute in ("evaluations"%string, (10 * 124 * 512 * 2)%N).
