(* C03 on the model regenerated from the source (G_syn) *)
From Coq Require Import NArith Bool List String.
From PK Require Import Base.Outcome Base.Finite Gen.Types Impl Spec.Known Spec.Charts Gen.All Syn.Lay Syn.Preds Check.Lay Check.C03.
Import ListNotations.
Notation LI := syn_lay.
Notation PI := syn_preds.

Lemma ok03 : ok_C03 LI = true. Proof. vm_compute. reflexivity. Qed.

Definition C03 := C03_sound LI ok03.
Check C03.
Print Assumptions C03.
Eval vm_compute in ("evaluations"%string, (10 * 124 * 512 * 2)%N).
