(* C19 for scancode set 2 on syn *)
From Coq Require Import NArith List String.
From PK Require Import Base.Outcome Base.Machine Gen.Types Impl Spec.ScanRef Spec.ScanAuto Syn.Set2 Check.Scan Check.C19.
Import ListNotations.
Local Open Scope N_scope.
Notation I := syn_set2.
Notation w := Set2.

Lemma paired : unpaired_C19 I w = []. Proof. vm_compute. reflexivity. Qed.
Lemma noclash : clashes_C19 I w = []. Proof. vm_compute. reflexivity. Qed.

Theorem C19_make_break_ : forall p c k, c < 256 -> wf w p c = true ->
  last_out I (make_seq w p c) = Ret (Ok (Some (KeyEvent_mk k KeyState_Down))) ->
  last_out I (break_seq w p c) = Ret (Ok (Some (KeyEvent_mk k KeyState_Up))).
Proof. exact (C19_make_break I w paired). Qed.
Theorem C19_break_make_ : forall p c k, c < 256 -> wf w p c = true ->
  last_out I (break_seq w p c) = Ret (Ok (Some (KeyEvent_mk k KeyState_Up))) ->
  last_out I (make_seq w p c) = Ret (Ok (Some (KeyEvent_mk k KeyState_Down))) \/
  (exists k', is_status_key k' = true /\ last_out I (make_seq w p c) = Ret (Ok (Some (KeyEvent_mk k' KeyState_SingleShot)))).
Proof. exact (C19_break_make I w paired). Qed.
Theorem C19_one_to_one_ : forall p c p' c' k, c < 256 -> c' < 256 -> wf w p c = true -> wf w p' c' = true ->
  last_out I (make_seq w p c) = Ret (Ok (Some (KeyEvent_mk k KeyState_Down))) ->
  last_out I (make_seq w p' c') = Ret (Ok (Some (KeyEvent_mk k KeyState_Down))) ->
  p = p' /\ c = c'.
Proof. exact (C19_one_to_one I w noclash). Qed.
Lemma at_home : homeless_C19 I w = []. Proof. vm_compute. reflexivity. Qed.
Theorem C19_in_any_history : forall s0, sc_init I = Ret s0 -> forall qs, Forall (cseq_ok w) qs ->
  exists oss : list (list sc_result),
    run (scan_machine I) s0 (flat_map (cseq_bytes w) qs) = Ret (s0, List.concat oss) /\
    Forall2 (fun q os => run (scan_machine I) s0 (cseq_bytes w q) = Ret (s0, os)) qs oss.
Proof. intros s0 Hi. exact (C19_history_sound I w s0 Hi at_home). Qed.
Print Assumptions C19_in_any_history.
Print Assumptions C19_make_break_.
Print Assumptions C19_break_make_.
Print Assumptions C19_one_to_one_.
Eval vm_compute in ("evaluations"%string, 2 * N.of_nat (List.length (wf_domain w))).
Eval vm_compute in ("pressable_keys"%string, N.of_nat (List.length (down_keys I w))).
