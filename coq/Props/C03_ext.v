(* C03 on the tables of the compiled crate (G_ext) *)
From Coq Require Import NArith Bool List String.
From PK Require Import Base.Outcome Base.Finite Gen.Types Impl Spec.Known Spec.Charts Ext.Lay ExtI.Lay Check.Lay Check.C03.
Import ListNotations.
Notation LI := ext_lay.
Notation PI := ext_preds.

Lemma ok03 : ok_C03 LI = true. Proof. vm_compute. reflexivity. Qed.

Definition C03_ext := C03_sound LI ok03.
Check C03_ext.
Print Assumptions C03_ext.
