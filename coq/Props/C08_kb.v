(* C08 for the combined Keyboard object, on the generated model: for EVERY scancode-set implementation
   and EVERY layout that do not panic themselves, no sequence of Keyboard operations panics.
   Combines C18 (Keyboard = composition of the stages) with the frame decoder's reachable-state invariant,
   the whole-word sweep and the symbolic event-decoder result. *)
From Coq Require Import NArith Bool List String.
From PK Require Import Base.Outcome Base.Ctl Base.Finite Base.Machine Base.Reach Gen.All Impl Spec.Frame Spec.Compose
  Syn.Ps2 Check.Ps2M Check.C08.
From PK Require Props.C08 Props.C18.
Import ListNotations.
Local Open Scope N_scope.

Inductive kb_op : Type :=
| OBit (b : bool) | OWord (w : N) | OByte (b : N) | OEvent (ev : KeyEvent) | OClear | OMode (hc : HandleControl).

Section AnyStages.
  Context {L S : Type}.
  Variable f : L -> KeyCode -> Modifiers -> HandleControl -> outcome DecodedKey.
  Variable adv : S -> N -> outcome (S * Result (option KeyEvent) Error).
  Hypothesis Hf : forall l k m hc, f l k m hc <> Panic.
  Hypothesis Hadv : forall s b, adv s b <> Panic.

  (* the frame decoder's reachable-state invariant, kept abstract here (instantiated at the end) *)
  Variable sts : list Ps2Decoder.
  Hypothesis Hinit : In (Ps2Decoder_mk 0 0) sts.
  Hypothesis Hstep : forall p op, In p sts -> exists p' o, m_step (ps2_machine syn_ps2) p op = Ret (p', o) /\ In p' sts.
  Definition good (k : Keyboard L S) : Prop := In (Keyboard_ps2_decoder k) sts.

  (* one operation, results dropped *)
  Definition kb_step (k : Keyboard L S) (op : kb_op) : outcome (Keyboard L S) :=
    match op with
    | OBit b => omap fst (Keyboard_add_bit f adv k b)
    | OWord w => omap fst (Keyboard_add_word f adv k w)
    | OByte b => omap fst (Keyboard_add_byte f adv k b)
    | OEvent ev => omap fst (Keyboard_process_keyevent f adv k ev)
    | OClear => omap fst (Keyboard_clear f adv k)
    | OMode hc => omap fst (Keyboard_set_ctrl_handling f adv k hc)
    end.

  Definition valid_op (op : kb_op) : Prop := match op with OWord w => w < 65536 | OByte b => b < 256 | _ => True end.

  Lemma frame_step : forall p op, In p sts ->
    exists p' o, m_step (ps2_machine syn_ps2) p op = Ret (p', o) /\ In p' sts.
  Proof. exact Hstep. Qed.

  Theorem kb_step_total : forall k op, good k -> valid_op op -> exists k', kb_step k op = Ret k' /\ good k'.
  Proof.
    intros [p s d] op Hg Hv. unfold good in *. cbn [Keyboard_ps2_decoder] in Hg. destruct op as [b|w|b|ev| |hc]; cbn [kb_step].
    - rewrite Props.C18.C18_add_bit. unfold spec_add_bit. cbn [Keyboard_ps2_decoder Keyboard_scancode_set Keyboard_event_decoder].
      destruct (frame_step p (Bit b) Hg) as (p' & o & E & Hp'). cbn [m_step ps2_machine ps_add_bit syn_ps2] in E. rewrite E.
      destruct o as [[byte|]|e]; unfold spec_add_byte, with_frame, with_scan; cbn [Keyboard_ps2_decoder Keyboard_scancode_set Keyboard_event_decoder omap fst].
      + pose proof (Hadv s byte) as Ha. destruct (adv s byte) as [[s' r]|]; [|congruence]. cbn [omap fst]. eexists. split; [reflexivity|exact Hp'].
      + eexists. split; [reflexivity|exact Hp'].
      + eexists. split; [reflexivity|exact Hp'].
    - rewrite Props.C18.C18_add_word. unfold spec_add_word. cbn [Keyboard_ps2_decoder Keyboard_scancode_set Keyboard_event_decoder].
      pose proof (Props.C08.C08_word p w Hv) as Hw. cbn [ps_add_word syn_ps2] in Hw.
      destruct (Ps2Decoder_add_word p w) as [[byte|e]|]; [| |congruence].
      + unfold spec_add_byte, with_scan. cbn [Keyboard_ps2_decoder Keyboard_scancode_set Keyboard_event_decoder].
        pose proof (Hadv s byte) as Ha. destruct (adv s byte) as [[s' r]|]; [|congruence]. cbn [omap fst]. eexists. split; [reflexivity|exact Hg].
      + cbn [omap fst]. eexists. split; [reflexivity|exact Hg].
    - rewrite Props.C18.C18_add_byte. unfold spec_add_byte, with_scan. cbn [Keyboard_ps2_decoder Keyboard_scancode_set Keyboard_event_decoder].
      pose proof (Hadv s b) as Ha. destruct (adv s b) as [[s' r]|]; [|congruence]. cbn [omap fst]. eexists. split; [reflexivity|exact Hg].
    - rewrite Props.C18.C18_process_keyevent. unfold spec_kb_process, with_ev. cbn [Keyboard_ps2_decoder Keyboard_scancode_set Keyboard_event_decoder].
      pose proof (Props.C08.C08_process f Hf d ev) as Hp. destruct (EventDecoder_process_keyevent f d ev) as [[d' r]|]; [|congruence].
      cbn [omap fst]. eexists. split; [reflexivity|exact Hg].
    - rewrite Props.C18.C18_clear. unfold spec_kb_clear, with_frame. cbn [Keyboard_ps2_decoder Keyboard_scancode_set Keyboard_event_decoder].
      destruct (frame_step p Clear Hg) as (p' & o & E & Hp'). cbn [m_step ps2_machine ps_clear syn_ps2 omap] in E.
      destruct (Ps2Decoder_clear p) as [[p'' u]|]; [|discriminate]. cbn [omap fst] in *. injection E as <- _.
      eexists. split; [reflexivity|exact Hp'].
    - rewrite Props.C18.C18_set_ctrl_handling. unfold spec_kb_set_mode, with_ev. cbn [Keyboard_ps2_decoder Keyboard_scancode_set Keyboard_event_decoder].
      pose proof (Props.C08.C08_set_ctrl_handling f d hc) as Hp. destruct (EventDecoder_set_ctrl_handling f d hc) as [[d' u]|]; [|congruence].
      cbn [omap fst]. eexists. split; [reflexivity|exact Hg].
  Qed.

  Fixpoint kb_run (k : Keyboard L S) (ops : list kb_op) : outcome (Keyboard L S) :=
    match ops with [] => Ret k | op :: rest => match kb_step k op with Ret k' => kb_run k' rest | Panic => Panic end end.

  (* no sequence of operations on a freshly constructed Keyboard panics *)
  Theorem C08_keyboard_gen : forall s0 l0 hc0 ops, Forall valid_op ops ->
    exists k0, Keyboard_new f adv s0 l0 hc0 = Ret k0 /\ exists k', kb_run k0 ops = Ret k'.
  Proof.
    intros s0 l0 hc0 ops Hops. rewrite Props.C18.C18_new. cbn.
    eexists. split; [reflexivity|].
    assert (G : good (Keyboard_mk (Ps2Decoder_mk 0 0) s0 (EventDecoder_mk hc0 (Modifiers_mk false false false false true false false false false) l0))).
    { unfold good. cbn [Keyboard_ps2_decoder]. exact Hinit. }
    revert G. generalize (Keyboard_mk (Ps2Decoder_mk 0 0) s0 (EventDecoder_mk hc0 (Modifiers_mk false false false false true false false false false) l0)).
    induction Hops as [|op ops Hv Hops IH]; intros k G; cbn [kb_run]; [eauto|].
    destruct (kb_step_total k op G Hv) as (k' & E & G'). rewrite E. exact (IH k' G').
  Qed.
End AnyStages.

Theorem C08_keyboard : forall L S (f : L -> KeyCode -> Modifiers -> HandleControl -> outcome DecodedKey)
    (adv : S -> N -> outcome (S * Result (option KeyEvent) Error)),
  (forall l k m hc, f l k m hc <> Panic) -> (forall s b, adv s b <> Panic) ->
  forall s0 l0 hc0 ops, Forall valid_op ops ->
  exists k0, Keyboard_new f adv s0 l0 hc0 = Ret k0 /\ exists k', kb_run f adv k0 ops = Ret k'.
Proof.
  intros L S f adv Hf Hadv.
  destruct (Props.C08.ps2_reach (Ps2Decoder_mk 0 0) eq_refl) as (sts & Hinit & Hstep).
  refine (C08_keyboard_gen f adv Hf Hadv sts Hinit _).
  intros p op Hp. exact (Hstep p op Hp (all_ops_complete op)).
Qed.
Print Assumptions C08_keyboard.
