(* The generated model of the WHOLE crate refines the abstract driver of Spec/Pipeline.v, for both
   scancode sets and for EVERY layout implementation:
   a Keyboard built by Keyboard::new and used in the documented loop returns, for every sequence of calls
   of any length (add_bit, add_word, add_byte, process_keyevent, clear, set_ctrl_handling in any order),
   exactly what the abstract pipeline returns - PS/2 framing per Spec/Frame.v, the reference automaton over
   the IBM/Microsoft table per Spec/ScanAuto.v, the abstract event decoder per Spec/Event.v - and panics
   only where the layout does.  Not tied to a single property: it needs C01/C02, C04, C05, C06, C14 and C18
   to hold at once (recorded as a composite theorem in the evidence of C18, never decisive).
   Set 1 is stated for call sequences that do not deliver one of the 20 cells of the open known finding F1
   ([cleanb], computed along the abstract run). *)
From Coq Require Import NArith Arith Bool List String Lia.
From PK Require Import Base.Outcome Base.Ctl Base.Finite Base.Machine Base.Sim Gen.Types Gen.Lib Gen.Set1 Gen.Set2 Impl
  Spec.Frame Spec.ScanRef Spec.ScanAuto Spec.EventRec Spec.Compose Spec.Pipeline
  Syn.Ps2 Syn.Set1 Syn.Set2 Check.Ps2M Check.C05 Check.C06 Check.Scan Check.C01 Check.C02 Props.PipelineGen.
From PK Require Props.C01 Props.C02 Props.C04 Props.C05 Props.C06 Props.C14 Props.C18.
Import ListNotations.
Local Open Scope N_scope.

Section AnyLayout.
  Context {L : Type} (f : L -> KeyCode -> Modifiers -> HandleControl -> outcome DecodedKey).

  (* C04 (modifiers), C14 (result, configuration) together: the generated event decoder IS the abstract one
     (this lemma, unlike C04 and C14 themselves, is about the three-field record) *)
  Lemma process_eq : forall (d : EventDecoder L) ev, EventDecoder_process_keyevent f d ev = spec_process f d ev.
  Proof.
    intros d ev. pose proof (Props.C14.C14 f d ev) as HR. unfold spec_process.
    destruct (EventDecoder_process_keyevent f d ev) as [[d' r]|] eqn:E.
    - pose proof (Props.C04.process_mods f d ev d' r E) as Hm.
      destruct (Props.C14.C14_process_config f d ev d' r E) as [Hh Hl].
      cbn [omap snd] in HR. destruct d' as [hc' m' l'].
      cbn [EventDecoder_modifiers EventDecoder_handle_ctrl EventDecoder_layout] in Hm, Hh, Hl. subst hc' m' l'.
      destruct (event_result _ _ _ ev) as [[x|]|]; cbn [omap] in HR; try discriminate; injection HR as ->; reflexivity.
    - cbn [omap] in HR. destruct (event_result _ _ _ ev) as [[x|]|]; cbn [omap] in HR; try discriminate; reflexivity.
  Qed.

  Lemma set_mode_eq : forall (d : EventDecoder L) hc,
    EventDecoder_set_ctrl_handling f d hc = Ret (EventDecoder_mk hc (EventDecoder_modifiers d) (EventDecoder_layout d), tt).
  Proof.
    intros d hc. destruct (Props.C14.C14_set_ctrl_handling f d hc) as (d' & E & Hh & Hm & Hl). rewrite E.
    destruct d' as [hc' m' l']. cbn [EventDecoder_modifiers EventDecoder_handle_ctrl EventDecoder_layout] in Hm, Hh, Hl.
    subst. reflexivity.
  Qed.

  Lemma word_eq : forall s w, w < 2048 -> Ps2Decoder_add_word s w = Ret (check w).
  Proof. exact Props.C05.C05. Qed.

  (* a Keyboard as Keyboard::new builds it *)
  Lemma new_kb : forall {S} (adv : S -> N -> outcome (S * Result (option KeyEvent) Error)) s l hc,
    Keyboard_new f adv s l hc = Ret (Keyboard_mk (Ps2Decoder_mk 0 0) s (EventDecoder_mk hc initial_mods l)).
  Proof. intros S adv s l hc. rewrite Props.C18.C18_new. reflexivity. Qed.

  (* ---- Scancode Set 2 ---- *)
  Theorem pipeline_set2 : forall s0 l hc kb0 ops,
    sc_init syn_set2 = Ret s0 -> Keyboard_new f (sc_step syn_set2) s0 l hc = Ret kb0 ->
    Forall valid_pop ops ->
    outs (kb_machine f syn_set2) kb0 ops = outs (pipeline f auto2) (pinit auto2 ctx2_init l hc) ops.
  Proof.
    intros s0 l hc kb0 ops Hi Hn Hv. rewrite new_kb in Hn. injection Hn as <-.
    apply (refine_run f syn_set2 auto2 (fun _ => true) all_ctx2 (fun s _ => all_ctx2_complete s)
             (fun x => sc_after syn_set2 (path2 x)) (fun _ _ => false)
             Props.C01.C01_closed Props.C06.C06_closed word_eq process_eq set_mode_eq).
    - unfold R, pinit. cbn [p_frame p_ctx p_dec Keyboard_ps2_decoder Keyboard_scancode_set Keyboard_event_decoder].
      repeat split; try reflexivity. unfold sc_after. rewrite Hi. reflexivity.
    - apply cleanb_oks; [exact Hv|]. clear. generalize (pinit (L:=L) auto2 ctx2_init l hc).
      induction ops as [|op ops IH]; intros st; [reflexivity|]. cbn [cleanb].
      assert (E : excb f auto2 (fun _ _ => false) st op = false).
      { destruct op; cbn [excb]; try reflexivity.
        - destruct (fstep (p_frame st) (Bit b)) as [fr' [[byte|]|e]]; reflexivity.
        - destruct (check w); reflexivity. }
      rewrite E. cbn [negb andb]. destruct (pstep f auto2 st op) as [[st' o]|]; [apply IH | reflexivity].
  Qed.

  (* ---- Scancode Set 1 (the cells of the open known finding excepted) ---- *)
  Theorem pipeline_set1 : forall s0 l hc kb0 ops,
    sc_init syn_set1 = Ret s0 -> Keyboard_new f (sc_step syn_set1) s0 l hc = Ret kb0 ->
    Forall valid_pop ops ->
    cleanb f auto1 exc_C02 (pinit auto1 P0 l hc) ops = true ->
    outs (kb_machine f syn_set1) kb0 ops = outs (pipeline f auto1) (pinit auto1 P0 l hc) ops.
  Proof.
    intros s0 l hc kb0 ops Hi Hn Hv Hc. rewrite new_kb in Hn. injection Hn as <-.
    apply (refine_run f syn_set1 auto1 (fun _ => true) all_prefix (fun s _ => all_prefix_complete s)
             (fun x => sc_after syn_set1 (path1 x)) exc_C02
             Props.C02.C02_closed Props.C06.C06_closed word_eq process_eq set_mode_eq).
    - unfold R, pinit. cbn [p_frame p_ctx p_dec Keyboard_ps2_decoder Keyboard_scancode_set Keyboard_event_decoder].
      repeat split; try reflexivity. unfold sc_after. rewrite Hi. reflexivity.
    - apply cleanb_oks; assumption.
  Qed.
End AnyLayout.

Check @pipeline_set2 : forall L (f : L -> KeyCode -> Modifiers -> HandleControl -> outcome DecodedKey) s0 l hc kb0 ops,
  sc_init syn_set2 = Ret s0 -> Keyboard_new f (sc_step syn_set2) s0 l hc = Ret kb0 ->
  Forall valid_pop ops ->
  outs (kb_machine f syn_set2) kb0 ops = outs (pipeline f auto2) (pinit auto2 ctx2_init l hc) ops.
Check @pipeline_set1 : forall L (f : L -> KeyCode -> Modifiers -> HandleControl -> outcome DecodedKey) s0 l hc kb0 ops,
  sc_init syn_set1 = Ret s0 -> Keyboard_new f (sc_step syn_set1) s0 l hc = Ret kb0 ->
  Forall valid_pop ops ->
  cleanb f auto1 exc_C02 (pinit auto1 P0 l hc) ops = true ->
  outs (kb_machine f syn_set1) kb0 ops = outs (pipeline f auto1) (pinit auto1 P0 l hc) ops.
Print Assumptions pipeline_set2.
Print Assumptions pipeline_set1.

(* ------------------------------------------------------------------------------------------------
   Consequences on the abstract pipeline (proved once, on the Spec), transported to the generated code by
   the refinement above. *)

(* the eleven bits of the frame a keyboard sends for byte b, first bit first *)
Definition frame_bits (b : N) : list bool := map (N.testbit (encode b)) (count_from 11 0).

Lemma frame_bits_ok_b :
  forallb (fun b => Nat.eqb (List.length (frame_bits b)) 11 && (word_of_bits (frame_bits b) =? encode b)) all_bytes = true.
Proof. vm_compute. reflexivity. Qed.
Lemma frame_bits_ok : forall b, b < 256 -> List.length (frame_bits b) = 11%nat /\ word_of_bits (frame_bits b) = encode b.
Proof.
  intros b Hb. pose proof frame_bits_ok_b as H. rewrite forallb_forall in H. specialize (H b (all_bytes_complete b Hb)).
  apply andb_prop in H as [H1 H2]. split; [apply Nat.eqb_eq; exact H1 | apply N.eqb_eq; exact H2].
Qed.

Section Wire.
  Context {L : Type} (f : L -> KeyCode -> Modifiers -> HandleControl -> outcome DecodedKey).
  Variable A : machine N sc_result.
  Notation P := (pipeline f A).
  Definition quiet : pout := OFeed (Ok None) None.

  Lemma partial_bits : forall bits acc c d, (List.length acc + List.length bits <= 10)%nat ->
    run P (mk_pst acc c d) (map PBit bits) = Ret (mk_pst (acc ++ bits) c d, repeat quiet (List.length bits)).
  Proof.
    induction bits as [|b bits IH]; intros acc c d H; cbn [map run List.length repeat].
    - rewrite app_nil_r. reflexivity.
    - cbn [m_step pipeline pstep fstep]. rewrite app_length. cbn [List.length].
      destruct (Nat.eqb (List.length acc + 1) 11) eqn:E; [apply Nat.eqb_eq in E; cbn [List.length] in H; lia|].
      rewrite IH by (rewrite app_length; cbn [List.length] in *; lia).
      rewrite <- app_assoc. reflexivity.
  Qed.

  (* one valid frame, shifted in bit by bit from a frame boundary: ten silent answers, then exactly what
     add_byte of its data byte gives; the frame stage is at a boundary again *)
  Theorem frame_then_byte : forall b c d, b < 256 ->
    run P (mk_pst [] c d) (map PBit (frame_bits b)) =
    match m_step P (mk_pst [] c d) (PByte b) with
    | Ret (st', o) => Ret (st', repeat quiet 10 ++ [o])
    | Panic => Panic
    end.
  Proof.
    intros b c d Hb. destruct (frame_bits_ok b Hb) as [Hlen Hw].
    destruct (exists_last (l:=frame_bits b)) as (front & lastb & E); [destruct (frame_bits b); [discriminate Hlen | discriminate]|].
    rewrite E in Hlen, Hw |- *. rewrite app_length in Hlen. cbn [List.length] in Hlen.
    assert (Hf : List.length front = 10%nat) by lia.
    rewrite map_app, run_app, partial_bits by (cbn [List.length]; lia). cbn [app map run].
    cbn [m_step pipeline pstep fstep]. rewrite app_length. cbn [List.length]. rewrite Hf. cbn [Nat.add Nat.eqb].
    rewrite Hw, (Check.C05.frame_roundtrip b Hb).
    destruct (feed_byte f A [] c d b) as [[st' o]|]; reflexivity.
  Qed.

  (* a whole byte stream on the wire, of any length, against the same bytes handed over by a controller *)
  Theorem wire_equals_bytes : forall bs c d, Forall (fun b => b < 256) bs ->
    outs P (mk_pst [] c d) (flat_map (fun b => map PBit (frame_bits b)) bs) =
    omap (flat_map (fun o => repeat quiet 10 ++ [o])) (outs P (mk_pst [] c d) (map PByte bs)).
  Proof.
    induction bs as [|b bs IH]; intros c d Hb; [reflexivity|].
    inversion Hb as [|? ? Hb1 Hb2]. subst. cbn [flat_map map]. unfold outs in *.
    rewrite run_app, frame_then_byte by exact Hb1. cbn [run].
    destruct (m_step P (mk_pst [] c d) (PByte b)) as [[st' o]|] eqn:E; [|reflexivity].
    assert (Hfr : p_frame st' = []).
    { cbn [m_step pipeline pstep] in E. unfold feed_byte in E.
      destruct (m_step A c b) as [[c' [[ev|]|e]]|]; try discriminate;
        [destruct (spec_process f d ev) as [[d' dk]|]; [|discriminate]| |]; injection E as <- _; reflexivity. }
    destruct st' as [fr' c' d']. cbn [p_frame] in Hfr. subst fr'.
    specialize (IH c' d' Hb2).
    destruct (run P (mk_pst [] c' d') (flat_map (fun b0 => map PBit (frame_bits b0)) bs)) as [[s1 o1]|],
             (run P (mk_pst [] c' d') (map PByte bs)) as [[s2 o2]|]; cbn [omap snd] in IH |- *; try discriminate; [|reflexivity].
    injection IH as ->. cbn [flat_map]. reflexivity.
  Qed.
End Wire.

(* transported to the generated code: a fresh Keyboard on Scancode Set 2 fed a byte stream as PS/2 frames,
   bit by bit, reports - at the end of each frame - exactly what it reports for the bytes themselves *)
Theorem keyboard_wire_equals_bytes : forall L (f : L -> KeyCode -> Modifiers -> HandleControl -> outcome DecodedKey) s0 l hc kb0 bs,
  sc_init syn_set2 = Ret s0 -> Keyboard_new f (sc_step syn_set2) s0 l hc = Ret kb0 ->
  Forall (fun b => b < 256) bs ->
  outs (kb_machine f syn_set2) kb0 (flat_map (fun b => map PBit (frame_bits b)) bs) =
  omap (flat_map (fun o => repeat quiet 10 ++ [o])) (outs (kb_machine f syn_set2) kb0 (map PByte bs)).
Proof.
  intros L f s0 l hc kb0 bs Hi Hn Hb.
  rewrite (pipeline_set2 f s0 l hc kb0 _ Hi Hn), (pipeline_set2 f s0 l hc kb0 _ Hi Hn).
  - apply wire_equals_bytes. exact Hb.
  - apply Forall_forall. intros op Hin. apply in_map_iff in Hin as (b & <- & Hin). cbn [valid_pop].
    rewrite Forall_forall in Hb. exact (Hb b Hin).
  - apply Forall_forall. intros op Hin. apply in_flat_map in Hin as (b & _ & Hin).
    apply in_map_iff in Hin as (x & <- & _). exact Logic.I.
Qed.
Print Assumptions keyboard_wire_equals_bytes.

