(* C16 on the tables of the compiled crate (G_ext) *)
From Coq Require Import NArith Bool List String.
From PK Require Import Base.Outcome Base.Finite Gen.Types Impl Spec.Known Ext.Lay ExtI.Lay Check.Lay Check.C16.
Import ListNotations.
Notation LI := ext_lay.
Notation PI := ext_preds.

Lemma ok16 : ok_C16 LI = true. Proof. vm_compute. reflexivity. Qed.

Definition C16_ext := C16_sound LI ok16.
Check C16_ext.
Print Assumptions C16_ext.
