(* C16 on the model regenerated from the source (G_syn) *)
From Coq Require Import NArith Bool List String.
From PK Require Import Base.Outcome Base.Finite Gen.Types Impl Spec.Known Gen.All Syn.Lay Syn.Preds Check.Lay Check.C16.
Import ListNotations.
Notation LI := syn_lay.
Notation PI := syn_preds.

Lemma ok16 : ok_C16 LI = true. Proof. vm_compute. reflexivity. Qed.

Definition C16 := C16_sound LI ok16.
Check C16.
Print Assumptions C16.
Eval vm_compute in ("evaluations"%string, (10 * 124 * 512 * 2)%N).
