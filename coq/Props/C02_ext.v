(* C02 on the tables of the compiled crate (G_ext). *)
From Coq Require Import NArith List String.
From PK Require Import Base.Outcome Base.Machine Gen.Types Impl Spec.ScanRef Spec.ScanAuto Ext.Set1 ExtI.Scan Check.Scan Check.C02.
Import ListNotations.
Local Open Scope N_scope.

Lemma C02_ext_closed : closed_C02 ext_set1 = true.
Proof. vm_compute. reflexivity. Qed.

Theorem C02_ext : forall bs, Forall byte bs ->
  agree (scan_machine ext_set1) auto1 exc_C02 P0 0 bs.
Proof. exact (C02_sound ext_set1 0 eq_refl C02_ext_closed). Qed.
Print Assumptions C02_ext.
