(* C14 on the generated generic code, for EVERY layout implementation f: what each operation returns *)
From Coq Require Import NArith Bool List String.
From PK Require Import Base.Outcome Base.Ctl Gen.Types Gen.Lib Impl Spec.Event Check.Ev.
From PK Require Props.C04.
Import ListNotations.

Section AnyLayout.
  Context {L : Type} (f : L -> KeyCode -> Modifiers -> HandleControl -> outcome DecodedKey).

  (* One decoded key per press, none per release or one-shot; modifier and lock keys yield themselves
     (NumLock under the hidden Ctrl yields PauseBreak); any other press yields what the installed layout
     returns for exactly (that key, the current modifiers, the current mode), and panics only if it does. *)
  Theorem C14 : forall (d : EventDecoder L) (ev : KeyEvent),
    omap snd (EventDecoder_process_keyevent f d ev) =
    match event_result (fun k => Ret (DecodedKey_RawKey k))
                       (fun k => f (EventDecoder_layout d) k (EventDecoder_modifiers d) (EventDecoder_handle_ctrl d))
                       (EventDecoder_modifiers d) ev with
    | None => Ret None
    | Some r => omap Some r
    end.
  Proof.
    intros d [k s]. destruct d.
    timeout 300 (destruct k, s; cbv; Props.C04.split_goal f; reflexivity).
  Qed.

  (* processing a key event leaves the configuration (mode, layout) alone *)
  Theorem C14_process_config : forall (d : EventDecoder L) ev d' r,
    EventDecoder_process_keyevent f d ev = Ret (d', r) ->
    EventDecoder_handle_ctrl d' = EventDecoder_handle_ctrl d /\ EventDecoder_layout d' = EventDecoder_layout d.
  Proof.
    intros d [k s] d' r H. destruct d.
    timeout 300 (destruct k, s; Props.C04.by_cases f H).
  Qed.

  (* a change of mode or layout is in force from the very next key, and touches nothing else that a layout
     can see *)
  Theorem C14_set_ctrl_handling : forall (d : EventDecoder L) hc, exists d',
    EventDecoder_set_ctrl_handling f d hc = Ret (d', tt) /\
    EventDecoder_handle_ctrl d' = hc /\ EventDecoder_modifiers d' = EventDecoder_modifiers d /\ EventDecoder_layout d' = EventDecoder_layout d.
  Proof. intros d hc. destruct d. cbv. Props.C04.split_goal f; eexists; repeat split. Qed.
  Theorem C14_change_layout : forall (d : EventDecoder L) l, exists d',
    EventDecoder_change_layout f d l = Ret (d', tt) /\
    EventDecoder_layout d' = l /\ EventDecoder_modifiers d' = EventDecoder_modifiers d /\ EventDecoder_handle_ctrl d' = EventDecoder_handle_ctrl d.
  Proof. intros d l. destruct d. cbv. Props.C04.split_goal f; eexists; repeat split. Qed.
  Theorem C14_new : forall l hc, omap (fun d => (EventDecoder_handle_ctrl d, EventDecoder_layout d)) (EventDecoder_new f l hc) = Ret (hc, l).
  Proof. reflexivity. Qed.
End AnyLayout.

Print Assumptions C14.
Print Assumptions C14_set_ctrl_handling.
Print Assumptions C14_process_config.
