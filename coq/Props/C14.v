(* C14 on the generated generic code, for EVERY layout implementation f: what each operation returns *)
From Coq Require Import NArith Bool List String.
From PK Require Import Base.Outcome Base.Ctl Gen.Types Gen.Lib Impl Spec.Event Syn.Ev Check.Ev.
Import ListNotations.

Section AnyLayout.
  Context {L : Type} (f : L -> KeyCode -> Modifiers -> HandleControl -> outcome DecodedKey).

  (* One decoded key per press, none per release or one-shot; modifier and lock keys yield themselves
     (NumLock under the hidden Ctrl yields PauseBreak); any other press yields what the installed layout
     returns for exactly (that key, the current modifiers, the current mode), and panics only if it does. *)
  Theorem C14 : forall (d : EventDecoder L) (ev : KeyEvent),
    omap snd (EventDecoder_process_keyevent f d ev) =
    match event_result (fun k => Ret (DecodedKey_RawKey k))
                       (fun k => f (EventDecoder_layout d) k (EventDecoder_modifiers d) (EventDecoder_handle_ctrl d))
                       (EventDecoder_modifiers d) ev with
    | None => Ret None
    | Some r => omap Some r
    end.
  Proof.
    intros [hc m lay] [k s].
    destruct k, s; try reflexivity;
      cbv [EventDecoder_process_keyevent run_mut cbind cget cput cret call call_mut event_result is_modifier_key momentary omap
           KeyEvent_code KeyEvent_state EventDecoder_modifiers EventDecoder_handle_ctrl EventDecoder_layout
           EventDecoder_set_modifiers];
      try (destruct (f lay _ m hc); reflexivity);
      destruct m as [? ? ? ? ? ? ? ? []]; reflexivity.
  Qed.

  (* a change of mode or layout is in force from the very next key, and touches nothing else *)
  Theorem C14_set_ctrl_handling : forall (d : EventDecoder L) hc,
    EventDecoder_set_ctrl_handling f d hc = Ret (EventDecoder_mk hc (EventDecoder_modifiers d) (EventDecoder_layout d), tt).
  Proof. intros [hc0 m lay] hc. reflexivity. Qed.
  Theorem C14_change_layout : forall (d : EventDecoder L) l,
    EventDecoder_change_layout f d l = Ret (EventDecoder_mk (EventDecoder_handle_ctrl d) (EventDecoder_modifiers d) l, tt).
  Proof. intros [hc0 m lay] l. reflexivity. Qed.
  Theorem C14_new : forall l hc, omap (fun d => (EventDecoder_handle_ctrl d, EventDecoder_layout d)) (EventDecoder_new f l hc) = Ret (hc, l).
  Proof. reflexivity. Qed.
End AnyLayout.

Print Assumptions C14.
Print Assumptions C14_set_ctrl_handling.

(* the same on the recording-layout instance used for the correspondence with the compiled crate *)
Lemma C14_syn_res : cex_res syn_ev = []. Proof. vm_compute. reflexivity. Qed.
Lemma C14_syn_mode : cex_setmode syn_ev = []. Proof. vm_compute. reflexivity. Qed.
Lemma C14_syn_init : cex_init14 syn_ev = []. Proof. vm_compute. reflexivity. Qed.
Theorem C14_recording : forall hc ops, exists s0, ev_init syn_ev hc = Ret s0 /\ snd s0 = hc /\ results_ok syn_ev s0 ops.
Proof. exact (C14_from_new syn_ev C14_syn_res C14_syn_mode C14_syn_init). Qed.
Print Assumptions C14_recording.
Eval vm_compute in ("evaluations"%string, N.of_nat (List.length all_steps + List.length all_modes)).
Eval vm_compute in ("sample"%string, map (fun ev => spec_ev_step (initial_mods, HandleControl_Ignore) ev)
   [KeyEvent_mk KeyCode_A KeyState_Down; KeyEvent_mk KeyCode_LShift KeyState_Down; KeyEvent_mk KeyCode_NumpadLock KeyState_Down]).
