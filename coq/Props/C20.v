(* C20, declaration level, on the signatures regenerated from the source *)
From Coq Require Import NArith Bool List String.
From PK Require Import Gen.Sigs Check.C20.
Import ListNotations.

Theorem C20_const_fns : not_const = []. Proof. vm_compute. reflexivity. Qed.
Theorem C20_auto_traits : not_auto = [] /\ manual_auto_impls = []. Proof. vm_compute. split; reflexivity. Qed.
Print Assumptions C20_const_fns.
Print Assumptions C20_auto_traits.
Eval vm_compute in ("functions"%string, N.of_nat (List.length fn_sigs)).
Eval vm_compute in ("types"%string, N.of_nat (List.length type_sigs)).
