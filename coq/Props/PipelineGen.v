(* The generated whole-crate model refines the abstract driver of Spec/Pipeline.v - generic part.
   For ANY layout dictionary f and ANY scancode decoder I whose closure check against an automaton A
   holds: the generated Keyboard functions, used in the documented loop (every reported key event goes to
   process_keyevent at once), produce for EVERY sequence of calls - bits, words, bytes, events, clear,
   mode changes, in any order and of any length - exactly the outputs of the abstract pipeline, panics
   included.  Assembles C18 (composition), C06's closure check (frame stage), C05 (whole words), the
   scancode closure check (C01 / C02) and C04 + C14 (event decoder) into one refinement. *)
From Coq Require Import NArith Arith Bool List Lia.
From PK Require Import Base.Outcome Base.Ctl Base.Finite Base.Machine Base.Sim Gen.Types Gen.Lib Impl
  Spec.Frame Spec.EventRec Spec.Compose Spec.Pipeline Syn.Ps2 Check.Ps2M Check.C06 Check.Scan.
From PK Require Props.C18.
Import ListNotations.
Local Open Scope N_scope.

Lemma check_byte : forall w b, check w = Ok b -> b < 256.
Proof.
  intros w b H. unfold check in H.
  destruct (fbit w 0); [discriminate|]. destruct (negb (fbit w 10)); [discriminate|].
  destruct (odd_ones w); [|discriminate]. injection H as <-. unfold frame_data. apply N.mod_lt. discriminate.
Qed.

Section Refine.
  Context {L : Type} (f : L -> KeyCode -> Modifiers -> HandleControl -> outcome DecodedKey).
  Variable I : ScanImpl.
  Variable A : machine N sc_result.
  Variable validA : m_st A -> bool.
  Variable allA : list (m_st A).
  Hypothesis allA_complete : forall s, validA s = true -> In s allA.
  Variable fA : m_st A -> outcome (sc_st I).
  Variable exc : m_st A -> N -> bool.
  Hypothesis Hsc : closedb (scan_machine I) A (sc_eqb I) scres_eqb all_bytes validA allA fA exc = true.
  Hypothesis Hps : closed_C06 syn_ps2 = true.
  Hypothesis Hword : forall s w, w < 2048 -> Ps2Decoder_add_word s w = Ret (check w).
  Hypothesis Hproc : forall (d : EventDecoder L) ev, EventDecoder_process_keyevent f d ev = spec_process f d ev.
  Hypothesis Hmode : forall (d : EventDecoder L) hc,
    EventDecoder_set_ctrl_handling f d hc = Ret (EventDecoder_mk hc (EventDecoder_modifiers d) (EventDecoder_layout d), tt).

  Notation adv := (sc_step I).
  Notation KB := (Keyboard L (sc_st I)).

  (* the documented usage loop on the generated functions *)
  Definition kb_feed (r : outcome (KB * sc_result)) : outcome (KB * pout) :=
    match r with
    | Ret (kb', Ok (Some ev)) =>
        match Keyboard_process_keyevent f adv kb' ev with
        | Ret (kb'', d) => Ret (kb'', OFeed (Ok (Some ev)) (Some d))
        | Panic => Panic
        end
    | Ret (kb', res) => Ret (kb', OFeed res None)
    | Panic => Panic
    end.
  Definition kb_ustep (kb : KB) (op : pop) : outcome (KB * pout) :=
    match op with
    | PBit b => kb_feed (Keyboard_add_bit f adv kb b)
    | PWord w => kb_feed (Keyboard_add_word f adv kb w)
    | PByte b => kb_feed (Keyboard_add_byte f adv kb b)
    | PEvent ev => match Keyboard_process_keyevent f adv kb ev with Ret (kb', d) => Ret (kb', ODec d) | Panic => Panic end
    | PClear => match Keyboard_clear f adv kb with Ret (kb', _) => Ret (kb', OUnit) | Panic => Panic end
    | PMode hc => match Keyboard_set_ctrl_handling f adv kb hc with Ret (kb', _) => Ret (kb', OUnit) | Panic => Panic end
    end.
  Definition kb_machine : machine pop pout := {| m_st := KB; m_step := kb_ustep |}.

  Definition R (kb : KB) (st : m_st (pipeline f A)) : Prop :=
    impl_after syn_ps2 (p_frame st) = Ret (Keyboard_ps2_decoder kb) /\ fvalid (p_frame st) = true /\
    fA (p_ctx st) = Ret (Keyboard_scancode_set kb) /\ validA (p_ctx st) = true /\
    Keyboard_event_decoder kb = p_dec st.

  (* a call admitted in a state: arguments within the documented ranges, and the byte it delivers to the
     scancode stage (if any) does not hit an excepted cell (a listed known finding) *)
  Definition okp (st : m_st (pipeline f A)) (op : pop) : Prop :=
    valid_pop op /\
    match op with
    | PByte b => exc (p_ctx st) b = false
    | PWord w => match check w with Ok b => exc (p_ctx st) b = false | Err _ => True end
    | PBit b => match fstep (p_frame st) (Bit b) with (_, Ok (Some byte)) => exc (p_ctx st) byte = false | _ => True end
    | _ => True
    end.

  Definition sim_ok (x : outcome (KB * pout)) (y : outcome (m_st (pipeline f A) * pout)) : Prop :=
    match x, y with
    | Ret (kb', o1), Ret (st', o2) => o1 = o2 /\ R kb' st'
    | Panic, Panic => True
    | _, _ => False
    end.

  (* a byte reaching the scancode stage *)
  Lemma feed_sim : forall p s d fr c b,
    impl_after syn_ps2 fr = Ret p -> fvalid fr = true -> fA c = Ret s -> validA c = true ->
    b < 256 -> exc c b = false ->
    sim_ok (kb_feed (spec_add_byte adv (Keyboard_mk p s d) b)) (feed_byte f A fr c d b).
  Proof.
    intros p s d fr c b Hp Hfv Hs Hv Hb Hx.
    destruct (@closed_step _ _ (scan_machine I) A (sc_eqb I) (sc_eqb_ok I) scres_eqb scres_eqb_ok all_bytes validA allA allA_complete fA exc Hsc
                c s b Hv Hs (all_bytes_complete b Hb)) as (c' & o2 & s' & o1 & E2 & E1 & Ho & Hv' & Hs').
    specialize (Ho Hx). subst o2.
    unfold spec_add_byte, feed_byte. cbn [Keyboard_scancode_set]. cbn [m_step scan_machine] in E1. rewrite E1, E2.
    unfold with_scan. cbn [Keyboard_ps2_decoder Keyboard_event_decoder kb_feed].
    destruct o1 as [[ev|]|e].
    - rewrite Props.C18.C18_process_keyevent. unfold spec_kb_process. cbn [Keyboard_event_decoder]. rewrite Hproc.
      destruct (spec_process f d ev) as [[d' dk]|]; [|exact Logic.I].
      unfold with_ev, sim_ok, R. cbn. auto 7.
    - unfold sim_ok, R. cbn. auto 7.
    - unfold sim_ok, R. cbn. auto 7.
  Qed.

  Theorem refine_step : forall kb st op, R kb st -> okp st op ->
    sim_ok (kb_ustep kb op) (pstep f A st op).
  Proof.
    intros [p s d] [fr c d0] op (Hp & Hfv & Hs & Hv & Hd) [Hvalid Hexc].
    cbn [Keyboard_ps2_decoder Keyboard_scancode_set Keyboard_event_decoder p_frame p_ctx p_dec] in *. subst d0.
    destruct op as [b|w|b|ev| |hc]; cbn [kb_ustep pstep valid_pop] in *.
    - (* a bit *)
      rewrite Props.C18.C18_add_bit. unfold spec_add_bit. cbn [Keyboard_ps2_decoder].
      destruct (@closed_step _ _ (ps2_machine syn_ps2) frame_machine (ps_eqb syn_ps2) (ps_eqb_ok syn_ps2) psres_eqb psres_eqb_ok all_ops fvalid (lists_upto 10)
                  (fun x H => lists_upto_complete 10 x (proj1 (Nat.leb_le _ _) H)) (impl_after syn_ps2) (fun _ _ => false) Hps
                  fr p (Bit b) Hfv Hp (all_ops_complete (Bit b))) as (fr' & o2 & p' & o1 & E2 & E1 & Ho & Hfv' & Hp').
      specialize (Ho eq_refl). subst o2.
      cbn [m_step ps2_machine ps_add_bit syn_ps2] in E1. rewrite E1.
      assert (E2' : fstep fr (Bit b) = (fr', o1)) by (cbn [m_step frame_machine] in E2; injection E2 as E2; exact E2).
      clear E2. rename E2' into E2. rewrite E2 in Hexc |- *.
      destruct o1 as [[byte|]|e].
      + unfold with_frame. cbn [Keyboard_scancode_set Keyboard_event_decoder].
        apply feed_sim; try assumption.
        unfold fstep in E2. destruct (Nat.eqb (length (fr ++ [b])) 11); [|inversion E2].
        injection E2 as _ E2. destruct (check (word_of_bits (fr ++ [b]))) as [dd|] eqn:Ec; [|discriminate].
        injection E2 as <-. exact (check_byte _ _ Ec).
      + unfold with_frame, kb_feed, sim_ok, R. cbn. auto 7.
      + unfold with_frame, kb_feed, sim_ok, R. cbn. auto 7.
    - (* a whole word *)
      rewrite Props.C18.C18_add_word. unfold spec_add_word. cbn [Keyboard_ps2_decoder]. rewrite (Hword p w Hvalid).
      destruct (check w) as [byte|e] eqn:Ec.
      + apply feed_sim; try assumption. exact (check_byte _ _ Ec).
      + unfold kb_feed, sim_ok, R. cbn. auto 7.
    - (* a byte *)
      rewrite Props.C18.C18_add_byte. apply feed_sim; assumption.
    - (* a key event *)
      rewrite Props.C18.C18_process_keyevent. unfold spec_kb_process. cbn [Keyboard_event_decoder]. rewrite Hproc.
      destruct (spec_process f d ev) as [[d' dk]|]; [|exact Logic.I].
      unfold with_ev, sim_ok, R. cbn. auto 7.
    - (* clear *)
      rewrite Props.C18.C18_clear. unfold spec_kb_clear. cbn [Keyboard_ps2_decoder].
      destruct (@closed_step _ _ (ps2_machine syn_ps2) frame_machine (ps_eqb syn_ps2) (ps_eqb_ok syn_ps2) psres_eqb psres_eqb_ok all_ops fvalid (lists_upto 10)
                  (fun x H => lists_upto_complete 10 x (proj1 (Nat.leb_le _ _) H)) (impl_after syn_ps2) (fun _ _ => false) Hps
                  fr p Clear Hfv Hp (all_ops_complete Clear)) as (fr' & o2 & p' & o1 & E2 & E1 & _ & Hfv' & Hp').
      cbn [m_step frame_machine fstep] in E2. injection E2 as <- _.
      cbn [m_step ps2_machine ps_clear syn_ps2] in E1.
      destruct (Ps2Decoder_clear p) as [[p'' u]|]; [|discriminate]. cbn [omap fst] in E1. injection E1 as -> _.
      unfold with_frame, sim_ok, R. cbn. auto 7.
    - (* set_ctrl_handling *)
      rewrite Props.C18.C18_set_ctrl_handling. unfold spec_kb_set_mode. cbn [Keyboard_event_decoder]. rewrite Hmode.
      unfold with_ev, sim_ok, R. cbn. auto 7.
  Qed.

  (* every sequence of admitted calls, of any length: identical outputs (and identical panics) *)
  Theorem refine_run : forall ops kb st, R kb st -> oks (pipeline f A) okp st ops ->
    outs kb_machine kb ops = outs (pipeline f A) st ops.
  Proof.
    intros ops kb st HR Hok.
    apply (sim_outs kb_machine (pipeline f A) R okp); [|exact HR|exact Hok].
    intros s1 s2 i HR' Hi. pose proof (refine_step s1 s2 i HR' Hi) as H. unfold sim_ok in H.
    cbn [m_step kb_machine pipeline].
    destruct (kb_ustep s1 i) as [[kb' o1]|], (pstep f A s2 i) as [[st' o2]|]; exact H.
  Qed.

  (* the excepted-cell half of [okp] as a computation along the abstract run *)
  Definition excb (st : m_st (pipeline f A)) (op : pop) : bool :=
    match op with
    | PByte b => exc (p_ctx st) b
    | PWord w => match check w with Ok b => exc (p_ctx st) b | Err _ => false end
    | PBit b => match fstep (p_frame st) (Bit b) with (_, Ok (Some byte)) => exc (p_ctx st) byte | _ => false end
    | _ => false
    end.
  Fixpoint cleanb (st : m_st (pipeline f A)) (ops : list pop) : bool :=
    match ops with
    | [] => true
    | op :: rest =>
        negb (excb st op) &&
        match pstep f A st op with Ret (st', _) => cleanb st' rest | Panic => true end
    end.
  Lemma cleanb_oks : forall ops st, Forall valid_pop ops -> cleanb st ops = true -> oks (pipeline f A) okp st ops.
  Proof.
    induction ops as [|op ops IH]; intros st Hv Hc; [exact Logic.I|].
    inversion Hv as [|? ? Hop Hrest]. subst. cbn [cleanb] in Hc. apply andb_prop in Hc as [Hx Hc].
    apply negb_true_iff in Hx. cbn [oks]. split.
    - split; [exact Hop|]. destruct op; cbn [excb] in Hx; try exact Logic.I.
      + destruct (fstep (p_frame st) (Bit b)) as [fr' [[byte|]|e]]; try exact Logic.I. exact Hx.
      + destruct (check w); [exact Hx | exact Logic.I].
      + exact Hx.
    - intros st' o E. cbn [m_step pipeline] in E. rewrite E in Hc. apply IH; assumption.
  Qed.
End Refine.
