(* C08 on the model regenerated from the source (checked arithmetic; Panic = any trap) *)
From Coq Require Import NArith Bool List String.
From PK Require Import Base.Outcome Base.Finite Base.Machine Gen.All Impl Spec.Frame Spec.Event
  Syn.Ps2 Syn.Set1 Syn.Set2 Syn.Lay Syn.Preds Syn.Ev Check.Scan Check.Ps2M Check.C06 Check.C07 Check.Lay Check.Ev Check.C08.
From PK Require Props.C06 Props.C07_set1 Props.C07_set2 Props.C04 Props.C18.
Import ListNotations.
Local Open Scope N_scope.

(* every byte to either scancode decoder, after any history (so the unimplemented!() arm of Set 1 and
   the three Set 2-only states are unreachable for it) *)
Theorem C08_set1 : forall bs, Forall byte bs ->
  exists s' os, run (scan_machine syn_set1) (ScancodeSet1_mk DecodeState_Start) bs = Ret (s', os).
Proof. exact (C08_scancodes syn_set1 _ _ Props.C07_set1.inv). Qed.
Theorem C08_set2 : forall bs, Forall byte bs ->
  exists s' os, run (scan_machine syn_set2) (ScancodeSet2_mk DecodeState_Start) bs = Ret (s', os).
Proof. exact (C08_scancodes syn_set2 _ _ Props.C07_set2.inv). Qed.

(* every bit and clear, in every reachable state of the frame decoder: the counter never exceeds 10, so
   `num_bits += 1` and `<< num_bits` stay in range *)
Theorem C08_bits : forall ops : list bit_op, outs (ps2_machine syn_ps2) (Ps2Decoder_mk 0 0) ops <> Panic.
Proof. intros ops. exact (proj2 (Props.C06.C06 ops)). Qed.

Lemma words_ok : panicking_words syn_ps2 (Ps2Decoder_mk 0 0) = []. Proof. vm_compute. reflexivity. Qed.
Theorem C08_word : forall s w, w < 65536 -> ps_add_word syn_ps2 s w <> Panic.
Proof. exact (C08_words syn_ps2 (Ps2Decoder_mk 0 0) (fun s w => eq_refl) words_ok). Qed.

(* every key event (and mode / layout change) to the event decoder, for every layout that does not panic *)
Definition C08_events := Props.C04.C04_total.

(* every key, modifier set and mode to every layout, through all three forms; results are valid scalars *)
Lemma lay_ok : ok_lay_C08 syn_lay = true. Proof. vm_compute. reflexivity. Qed.
Definition C08_layouts_ := C08_layouts syn_lay lay_ok.
Lemma preds_ok : filter (bad_pred_C08 syn_preds) all_Modifiers = []. Proof. vm_compute. reflexivity. Qed.

(* the constructors *)
Lemma C08_constructors :
  is_ret Ps2Decoder_new && is_ret ScancodeSet1_new && is_ret ScancodeSet2_new && is_ret ScancodeSet1_default
  && is_ret ScancodeSet2_default && is_ret Ps2Decoder_default
  && is_ret (KeyEvent_new KeyCode_A KeyState_Down) = true.
Proof. vm_compute. reflexivity. Qed.

Print Assumptions C08_set1.
Print Assumptions C08_set2.
Print Assumptions C08_bits.
Print Assumptions C08_word.
Print Assumptions C08_events.
Print Assumptions C08_layouts_.
Eval vm_compute in ("evaluations"%string, (3 * 10 * 124 * 512 * 2 + 65536 + 9 * 256 + 3 * 2047)%N).
