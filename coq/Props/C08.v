(* C08 on the model regenerated from the source (checked arithmetic; Panic = any trap).
   Self-contained: nothing here depends on the proofs of other properties, so that a change which
   breaks, say, resynchronisation without introducing a panic does not disturb this file. *)
From Coq Require Import NArith Bool List String.
From PK Require Import Base.Outcome Base.Ctl Base.Finite Base.Machine Base.Reach Gen.All Impl Spec.Frame Spec.Event
  Syn.Ps2 Syn.Set1 Syn.Set2 Syn.Lay Syn.Preds Check.Scan Check.Ps2M Check.C07 Check.Lay Check.Ev Check.C08.
Import ListNotations.
Local Open Scope N_scope.

(* every byte to either scancode decoder, after any history (so the unimplemented!() arm of Set 1 and
   the three Set 2-only states are unreachable for it) *)
Lemma inv1 : at_init syn_set1 false (fun s0 => inv_C07 syn_set1 ScancodeSet1_hash s0) = true. Proof. vm_compute. reflexivity. Qed.
Lemma inv2 : at_init syn_set2 false (fun s0 => inv_C07 syn_set2 ScancodeSet2_hash s0) = true. Proof. vm_compute. reflexivity. Qed.
Theorem C08_set1 : forall s0, sc_init syn_set1 = Ret s0 -> forall bs, Forall byte bs ->
  exists s' os, run (scan_machine syn_set1) s0 bs = Ret (s', os).
Proof. intros s0 Hi. pose proof inv1 as H. rewrite (at_init_elim _ _ _ _ s0 Hi) in H. exact (C08_scancodes syn_set1 _ _ _ H). Qed.
Theorem C08_set2 : forall s0, sc_init syn_set2 = Ret s0 -> forall bs, Forall byte bs ->
  exists s' os, run (scan_machine syn_set2) s0 bs = Ret (s', os).
Proof. intros s0 Hi. pose proof inv2 as H. rewrite (at_init_elim _ _ _ _ s0 Hi) in H. exact (C08_scancodes syn_set2 _ _ _ H). Qed.
Example scan_inits_exist : (exists s0, sc_init syn_set1 = Ret s0) /\ (exists s0, sc_init syn_set2 = Ret s0).
Proof. split; eexists; reflexivity. Qed.

(* every bit and clear, in every reachable state of the frame decoder: the counter never exceeds 10, so
   `num_bits += 1` and `<< num_bits` stay in range *)
Lemma inv_bits : ps_at_init syn_ps2 false (fun s0 => inv_ps2 syn_ps2 Ps2Decoder_hash s0) = true. Proof. vm_compute. reflexivity. Qed.
Theorem C08_bits : forall s0, ps_init syn_ps2 = Ret s0 -> forall ops : list bit_op,
  exists s' os, run (ps2_machine syn_ps2) s0 ops = Ret (s', os).
Proof. intros s0 Hi. pose proof inv_bits as H. rewrite (ps_at_init_elim _ _ _ _ s0 Hi) in H. exact (C08_bitops syn_ps2 _ _ H). Qed.
(* the invariant as an abstract list of states (for Props/C08_kb.v) *)
Lemma ps2_reach : forall s0, ps_init syn_ps2 = Ret s0 -> exists sts : list Ps2Decoder, In s0 sts /\
  forall p op, In p sts -> In op all_ops -> exists p' o, m_step (ps2_machine syn_ps2) p op = Ret (p', o) /\ In p' sts.
Proof.
  intros s0 Hi. pose proof inv_bits as H. rewrite (ps_at_init_elim _ _ _ _ s0 Hi) in H.
  exact (@kreach_list _ _ (ps2_machine syn_ps2) (ps_eqb syn_ps2) Ps2Decoder_hash all_ops (ps_eqb_ok syn_ps2)
           (ps2_kstates syn_ps2 Ps2Decoder_hash s0) s0 H).
Qed.

Lemma words_ok : ps_at_init syn_ps2 [0] (fun s0 => panicking_words syn_ps2 s0) = []. Proof. vm_compute. reflexivity. Qed.
Lemma ps2_init_exists : exists s0, ps_init syn_ps2 = Ret s0. Proof. eexists; reflexivity. Qed.
Theorem C08_word : forall s w, w < 65536 -> ps_add_word syn_ps2 s w <> Panic.
Proof.
  destruct ps2_init_exists as (s0 & Hi). pose proof words_ok as H. rewrite (ps_at_init_elim _ _ _ _ s0 Hi) in H.
  exact (C08_words syn_ps2 s0 (fun s w => eq_refl) H).
Qed.

(* every key event, mode change and layout change to the event decoder, for EVERY layout that does not
   panic itself - symbolic, the layout function stays universally quantified *)
Section AnyLayout.
  Context {L : Type} (f : L -> KeyCode -> Modifiers -> HandleControl -> outcome DecodedKey).
  Hypothesis Hf : forall l k m hc, f l k m hc <> Panic.
  (* shape-tolerant: unfold everything, split on every variable scrutinee (a modifier flag, a hidden field)
     and on every call of the layout, which does not panic by hypothesis; no field of the record is named *)
  Ltac split_all :=
    repeat match goal with
           | |- context [match f ?a ?b ?c ?d with _ => _ end] =>
               let H := fresh in pose proof (Hf a b c d) as H; destruct (f a b c d); [|congruence]
           | |- context [if ?c then _ else _] => destruct c
           | |- context [match ?x with _ => _ end] => is_var x; destruct x
           | |- context [if ?x then _ else _] => is_var x; destruct x
           end.
  Theorem C08_process : forall (d : EventDecoder L) ev, EventDecoder_process_keyevent f d ev <> Panic.
  Proof. intros d [k s]. destruct d. timeout 300 (destruct k, s; cbv -[N.eqb N.ltb N.leb N.add N.sub N.mul N.div N.modulo N.lor N.land N.lxor N.shiftl N.shiftr N.b2n N.testbit]; split_all; discriminate). Qed.
  Theorem C08_set_ctrl_handling : forall (d : EventDecoder L) hc, EventDecoder_set_ctrl_handling f d hc <> Panic.
  Proof. intros d hc. destruct d. cbv -[N.eqb N.ltb N.leb N.add N.sub N.mul N.div N.modulo N.lor N.land N.lxor N.shiftl N.shiftr N.b2n N.testbit]. split_all; discriminate. Qed.
  Theorem C08_change_layout : forall (d : EventDecoder L) l, EventDecoder_change_layout f d l <> Panic.
  Proof. intros d l. destruct d. cbv -[N.eqb N.ltb N.leb N.add N.sub N.mul N.div N.modulo N.lor N.land N.lxor N.shiftl N.shiftr N.b2n N.testbit]. split_all; discriminate. Qed.
  Theorem C08_new : forall l hc, EventDecoder_new f l hc <> Panic.
  Proof. intros l hc. cbv. discriminate. Qed.
End AnyLayout.

(* every key, modifier set and mode to every layout, through all three forms; results are valid scalars *)
Lemma lay_ok : ok_lay_C08 syn_lay = true. Proof. vm_compute. reflexivity. Qed.
Definition C08_layouts_ := C08_layouts syn_lay lay_ok.
Lemma preds_ok : filter (bad_pred_C08 syn_preds) all_Modifiers = []. Proof. vm_compute. reflexivity. Qed.

(* the constructors *)
Lemma C08_constructors :
  is_ret Ps2Decoder_new && is_ret ScancodeSet1_new && is_ret ScancodeSet2_new && is_ret ScancodeSet1_default
  && is_ret ScancodeSet2_default && is_ret Ps2Decoder_default
  && is_ret (KeyEvent_new KeyCode_A KeyState_Down) = true.
Proof. vm_compute. reflexivity. Qed.

Print Assumptions C08_set1.
Print Assumptions C08_set2.
Print Assumptions C08_bits.
Print Assumptions C08_word.
Print Assumptions C08_process.
Print Assumptions C08_layouts_.
Eval vm_compute in ("evaluations"%string, (3 * 10 * 124 * 512 * 2 + 65536 + 9 * 256 + 3 * 2047)%N).
