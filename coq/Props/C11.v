(* C11 on the model regenerated from the source (G_syn) *)
From Coq Require Import NArith Bool List String.
From PK Require Import Base.Outcome Base.Finite Gen.Types Impl Spec.Known Gen.All Syn.Lay Syn.Preds Check.Lay Check.C11.
Import ListNotations.
Notation LI := syn_lay.
Notation PI := syn_preds.

Lemma ok11 : ok_C11 LI = true. Proof. vm_compute. reflexivity. Qed.
Lemma okp : cex_pred PI = []. Proof. vm_compute. reflexivity. Qed.

Definition C11 := C11_sound LI ok11.
Check C11.
Print Assumptions C11.
Definition C11_predicates := preds_sound PI okp.
Check C11_predicates.
Print Assumptions C11_predicates.
Eval vm_compute in ("evaluations"%string, (10 * 124 * 512 * 2)%N).
