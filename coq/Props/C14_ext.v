(* C14 on the tables of the compiled crate (EventDecoder with a recording layout) *)
From Coq Require Import NArith Bool List String.
From PK Require Import Base.Outcome Gen.Types Impl Spec.Mods Ext.Event ExtI.Ev Check.EvImpl.
Import ListNotations.

Lemma C14_ext_res : cex_res ext_ev = []. Proof. vm_compute. reflexivity. Qed.
Lemma C14_ext_mode : cex_setmode ext_ev = []. Proof. vm_compute. reflexivity. Qed.
Lemma C14_ext_init : cex_init14 ext_ev = []. Proof. vm_compute. reflexivity. Qed.
Theorem C14_ext : forall hc ops, exists s0, ev_init ext_ev hc = Ret s0 /\ snd s0 = hc /\ results_ok ext_ev s0 ops.
Proof. exact (C14_from_new ext_ev C14_ext_res C14_ext_mode C14_ext_init). Qed.
Print Assumptions C14_ext.
Eval vm_compute in ("states"%string, N.of_nat (List.length (filter (ev_reach ext_ev) all_ev_state))).
