(* C02 on the model regenerated from the source (G_syn). *)
From Coq Require Import NArith List String.
From PK Require Import Base.Outcome Base.Machine Gen.Types Impl Spec.ScanRef Spec.ScanAuto Syn.Set1 Check.Scan Check.C02.
Import ListNotations.
Local Open Scope N_scope.

Lemma C02_closed : closed_C02 syn_set1 = true.
Proof. vm_compute. reflexivity. Qed.

Theorem C02 : forall bs, Forall byte bs ->
  agree (scan_machine syn_set1) auto1 exc_C02 P0 (ScancodeSet1_mk DecodeState_Start) bs.
Proof. exact (C02_sound syn_set1 _ eq_refl C02_closed). Qed.

Check C02 : forall bs, Forall byte bs ->
  agree (scan_machine syn_set1) auto1 exc_C02 P0 (ScancodeSet1_mk DecodeState_Start) bs.
Print Assumptions C02.
Eval vm_compute in ("evaluations"%string, 3 * 256).
Eval vm_compute in ("known_cells_still_failing"%string, N.of_nat (List.length (known_cells_C02 syn_set1))).
