(* C02 on the model regenerated from the source (G_syn). *)
From Coq Require Import NArith List String.
From PK Require Import Base.Outcome Base.Machine Gen.Types Impl Spec.ScanRef Spec.ScanAuto Syn.Set1 Check.Scan Check.C02.
Import ListNotations.
Local Open Scope N_scope.

Lemma C02_closed : closed_C02 syn_set1 = true.
Proof. vm_compute. reflexivity. Qed.

Theorem C02 : forall s0, sc_init syn_set1 = Ret s0 -> forall bs, Forall byte bs ->
  agree (scan_machine syn_set1) auto1 exc_C02 P0 s0 bs.
Proof. intros s0 Hi. exact (C02_sound syn_set1 s0 Hi C02_closed). Qed.
Example C02_init_exists : exists s0, sc_init syn_set1 = Ret s0. Proof. eexists; reflexivity. Qed.

Check C02 : forall s0, sc_init syn_set1 = Ret s0 -> forall bs, Forall byte bs ->
  agree (scan_machine syn_set1) auto1 exc_C02 P0 s0 bs.
Print Assumptions C02.
Eval vm_compute in ("evaluations"%string, 3 * 256).
Eval vm_compute in ("known_cells_still_failing"%string, N.of_nat (List.length (known_cells_C02 syn_set1))).
