(* C05 on the tables of the compiled crate (G_ext). *)
From Coq Require Import NArith List.
From PK Require Import Base.Outcome Gen.Types Impl Spec.Frame Ext.Ps2 ExtI.Ps2 Check.C05.
Import ListNotations.
Local Open Scope N_scope.

Lemma C05_ext_state_independent : ext_ps2_word_state_dependence = 0.
Proof. vm_compute. reflexivity. Qed.

Lemma C05_ext_eq : cex_C05 ext_ps2 0 = [].
Proof. vm_compute. reflexivity. Qed.

Theorem C05_ext : forall s w, w < 2048 -> ps_add_word ext_ps2 s w = Ret (check w).
Proof. exact (C05_sound ext_ps2 0 (fun s w => eq_refl) C05_ext_eq). Qed.

Check C05_ext : forall s w, w < 2048 -> ps_add_word ext_ps2 s w = Ret (check w).
Print Assumptions C05_ext.
