(* C09 on the tables of the compiled crate (G_ext) *)
From Coq Require Import NArith Bool List String.
From PK Require Import Base.Outcome Base.Finite Gen.Types Impl Spec.Known Ext.Lay ExtI.Lay Check.Lay Check.C09.
Import ListNotations.
Notation LI := ext_lay.
Notation PI := ext_preds.

Lemma ok09 : ok_C09 LI = true. Proof. vm_compute. reflexivity. Qed.

Definition C09_ext := C09_sound LI ok09.
Check C09_ext.
Print Assumptions C09_ext.
Definition C09_inert__ext := C09_inert LI ok09.
Check C09_inert__ext.
Print Assumptions C09_inert__ext.
