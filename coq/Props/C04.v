(* C04 on the generated generic code: for every layout, every sequence of events, mode changes and
   layout changes, the reported modifier record is the declarative reading of the event history. *)
From Coq Require Import NArith Bool List String.
From PK Require Import Base.Outcome Base.Ctl Gen.Types Gen.Lib Impl Spec.Event Syn.Ev Check.Ev.
Import ListNotations.

Section AnyLayout.
  Context {L : Type} (f : L -> KeyCode -> Modifiers -> HandleControl -> outcome DecodedKey).

  (* One decoded key per press, none per release or one-shot; modifier and lock keys yield themselves
     (NumLock under the hidden Ctrl yields PauseBreak); any other press yields what the installed layout
     returns for exactly (that key, the current modifiers, the current mode). *)
  Theorem process_spec : forall (d : EventDecoder L) (ev : KeyEvent),
    omap fst (EventDecoder_process_keyevent f d ev) = omap fst (spec_process f d ev).
  Proof.
    intros [hc m lay] [k s]. unfold spec_process.
    destruct k, s; try reflexivity;
      cbv [EventDecoder_process_keyevent run_mut cbind cget cput cret call call_mut event_result is_modifier_key momentary omap fst
           KeyEvent_code KeyEvent_state EventDecoder_modifiers EventDecoder_handle_ctrl EventDecoder_layout
           EventDecoder_set_modifiers mods_step];
      try (destruct (f lay _ m hc); reflexivity);
      destruct m as [? ? ? ? ? ? ? ? []]; reflexivity.
  Qed.

  Theorem set_ctrl_handling_spec : forall (d : EventDecoder L) hc,
    EventDecoder_set_ctrl_handling f d hc = Ret (EventDecoder_mk hc (EventDecoder_modifiers d) (EventDecoder_layout d), tt).
  Proof. intros [hc0 m lay] hc. reflexivity. Qed.

  Theorem change_layout_spec : forall (d : EventDecoder L) l,
    EventDecoder_change_layout f d l = Ret (EventDecoder_mk (EventDecoder_handle_ctrl d) (EventDecoder_modifiers d) l, tt).
  Proof. intros [hc0 m lay] l. reflexivity. Qed.

  Theorem new_spec : forall l hc, EventDecoder_new f l hc = Ret (EventDecoder_mk hc initial_mods l).
  Proof. reflexivity. Qed.

  Theorem get_ctrl_handling_spec : forall d : EventDecoder L, EventDecoder_get_ctrl_handling f d = Ret (EventDecoder_handle_ctrl d).
  Proof. intros [hc0 m lay]. reflexivity. Qed.

  (* lifted to operation sequences with mode and layout changes interleaved anywhere *)
  Theorem runs_spec : forall ops (d : EventDecoder L),
    gen_run (EventDecoder_process_keyevent f) (EventDecoder_set_ctrl_handling f) (EventDecoder_change_layout f) d ops
    = spec_gen_run f d ops.
  Proof. exact (gen_run_spec f _ _ _ process_spec set_ctrl_handling_spec change_layout_spec). Qed.
End AnyLayout.


Theorem C04 : forall L (f : L -> KeyCode -> Modifiers -> HandleControl -> outcome DecodedKey) l0 hc0 ops d',
  gen_run (EventDecoder_process_keyevent f) (EventDecoder_set_ctrl_handling f) (EventDecoder_change_layout f)
          (EventDecoder_mk hc0 initial_mods l0) ops = Ret d' ->
  EventDecoder_modifiers d' = after (events_of ops).
Proof.
  intros L f l0 hc0 ops d' H.
  rewrite (gen_mods_history f _ _ _ (process_spec f) (set_ctrl_handling_spec f) (change_layout_spec f) ops _ d' H).
  apply history.
Qed.

Check history : forall h, fold_left mods_step h initial_mods = after h.
Print Assumptions C04.
Eval vm_compute in ("sample"%string, after [KeyEvent_mk KeyCode_RControl2 KeyState_Down; KeyEvent_mk KeyCode_NumpadLock KeyState_Down;
   KeyEvent_mk KeyCode_RControl2 KeyState_Up; KeyEvent_mk KeyCode_NumpadLock KeyState_Up; KeyEvent_mk KeyCode_CapsLock KeyState_Down]).

(* the same on the recording-layout instance used for the correspondence with the compiled crate *)
Lemma C04_syn_step : cex_step syn_ev = []. Proof. vm_compute. reflexivity. Qed.
Lemma C04_syn_mode : cex_mode syn_ev = []. Proof. vm_compute. reflexivity. Qed.
Lemma C04_syn_init : cex_init syn_ev = []. Proof. vm_compute. reflexivity. Qed.
Theorem C04_recording : forall hc0 ops,
  exists s0, ev_init syn_ev hc0 = Ret s0 /\
  exists rs, impl_run syn_ev s0 ops = Ret ((after (eevents ops), last_mode hc0 ops), rs).
Proof. exact (C04_sound syn_ev C04_syn_step C04_syn_mode C04_syn_init). Qed.
Print Assumptions C04_recording.
Eval vm_compute in ("evaluations"%string, N.of_nat (List.length all_steps + List.length all_modes)).
