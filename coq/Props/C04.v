(* C04 on the generated generic code: for every layout, every sequence of events, mode changes and
   layout changes, the reported modifier record is the declarative reading of the event history. *)
From Coq Require Import NArith Bool List String.
From PK Require Import Base.Outcome Base.Ctl Gen.Types Gen.Lib Impl Spec.Event Check.Ev.
Import ListNotations.

(* Shape-tolerant case analysis: unfold everything, then split on every call of the layout and every scrutinee
   that is a variable (a modifier flag, a hidden field of the decoder); no field of the record is named. *)
Ltac split_goal f :=
  repeat match goal with
         | |- context [match f ?a ?b ?c ?d with _ => _ end] => destruct (f a b c d)
         | |- context [match ?x with _ => _ end] => is_var x; destruct x
         | |- context [if ?x then _ else _] => is_var x; destruct x
         end.
Ltac split_hyp f H :=
  repeat match type of H with
         | context [match f ?a ?b ?c ?d with _ => _ end] => destruct (f a b c d)
         | context [match ?x with _ => _ end] => is_var x; destruct x
         | context [if ?x then _ else _] => is_var x; destruct x
         end.
(* H : <operation> = Ret (d', r): case analysis on H, then the new decoder is substituted in the goal *)
Ltac by_cases f H :=
  cbv in H; split_hyp f H; try discriminate H;
  let Hd := fresh in (injection H as Hd _; rewrite <- Hd; cbv; split_goal f; repeat split; reflexivity).

Section AnyLayout.
  Context {L : Type} (f : L -> KeyCode -> Modifiers -> HandleControl -> outcome DecodedKey).
  Notation mods := EventDecoder_modifiers.

  (* whatever process_keyevent returns, the modifier record has moved by exactly the abstract step *)
  Theorem process_mods : forall (d : EventDecoder L) (ev : KeyEvent) d' r,
    EventDecoder_process_keyevent f d ev = Ret (d', r) -> mods d' = mods_step (mods d) ev.
  Proof.
    intros d [k s] d' r H. destruct d.
    timeout 300 (destruct k, s; by_cases f H).
  Qed.

  Theorem set_ctrl_handling_mods : forall (d : EventDecoder L) hc d' u,
    EventDecoder_set_ctrl_handling f d hc = Ret (d', u) -> mods d' = mods d.
  Proof. intros d hc d' u H. destruct d. by_cases f H. Qed.

  Theorem change_layout_mods : forall (d : EventDecoder L) l d' u,
    EventDecoder_change_layout f d l = Ret (d', u) -> mods d' = mods d.
  Proof. intros d l d' u H. destruct d. by_cases f H. Qed.

  Theorem new_mods : forall l hc d0, EventDecoder_new f l hc = Ret d0 -> mods d0 = initial_mods.
  Proof. intros l hc d0 H. cbv in H. injection H as <-. reflexivity. Qed.
  Theorem new_returns : forall l hc, exists d0, EventDecoder_new f l hc = Ret d0.
  Proof. intros l hc. eexists. reflexivity. Qed.
End AnyLayout.

(* for EVERY layout implementation, from a decoder as EventDecoder::new builds it, through every sequence
   of key events, mode changes and layout changes: the reported modifiers are the history's reading *)
Theorem C04 : forall L (f : L -> KeyCode -> Modifiers -> HandleControl -> outcome DecodedKey) l0 hc0 d0 ops d',
  EventDecoder_new f l0 hc0 = Ret d0 ->
  gen_run (EventDecoder_process_keyevent f) (EventDecoder_set_ctrl_handling f) (EventDecoder_change_layout f) d0 ops = Ret d' ->
  EventDecoder_modifiers d' = after (events_of ops).
Proof.
  intros L f l0 hc0 d0 ops d' Hn H.
  rewrite (gen_mods_history _ _ _ (process_mods f) (set_ctrl_handling_mods f) (change_layout_mods f) ops d0 d' H).
  rewrite (new_mods f l0 hc0 d0 Hn). apply history.
Qed.

Check history : forall h, fold_left mods_step h initial_mods = after h.
Print Assumptions C04.
Eval vm_compute in ("sample"%string, after [KeyEvent_mk KeyCode_RControl2 KeyState_Down; KeyEvent_mk KeyCode_NumpadLock KeyState_Down;
   KeyEvent_mk KeyCode_RControl2 KeyState_Up; KeyEvent_mk KeyCode_NumpadLock KeyState_Up; KeyEvent_mk KeyCode_CapsLock KeyState_Down]).
