(* C04 on the recording-layout instance of the generated event decoder - the instance that is compared with
   the tables of the compiled crate (Corr/Ev.v); part of the correspondence, not of the property's proof. *)
From Coq Require Import NArith Bool List String.
From PK Require Import Base.Outcome Base.Ctl Gen.Types Gen.Lib Impl Spec.Event Syn.Ev Check.Ev.
Import ListNotations.

(* the same on the recording-layout instance used for the correspondence with the compiled crate *)
Lemma C04_syn_step : cex_step syn_ev = []. Proof. vm_compute. reflexivity. Qed.
Lemma C04_syn_mode : cex_mode syn_ev = []. Proof. vm_compute. reflexivity. Qed.
Lemma C04_syn_init : cex_init syn_ev = []. Proof. vm_compute. reflexivity. Qed.
Theorem C04_recording : forall hc0 ops,
  exists s0, ev_init syn_ev hc0 = Ret s0 /\
  exists rs, impl_run syn_ev s0 ops = Ret ((after (eevents ops), last_mode hc0 ops), rs).
Proof. exact (C04_sound syn_ev C04_syn_step C04_syn_mode C04_syn_init). Qed.
Print Assumptions C04_recording.
Eval vm_compute in ("evaluations"%string, N.of_nat (List.length all_steps + List.length all_modes)).
