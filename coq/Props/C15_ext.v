(* C15 on the tables of the compiled crate (G_ext) *)
From Coq Require Import NArith Bool List String.
From PK Require Import Base.Outcome Base.Finite Gen.Types Impl Spec.Known Ext.Lay ExtI.Lay Check.Lay Check.C16 Check.C15.
Import ListNotations.
Notation LI := ext_lay.
Notation PI := ext_preds.

Lemma ok15 : all_ok_C15 LI = true. Proof. vm_compute. reflexivity. Qed.

Definition C15_digits__ext := C15_digits LI ok15.
Check C15_digits__ext.
Print Assumptions C15_digits__ext.
Definition C15_fixed__ext := C15_fixed LI ok15.
Check C15_fixed__ext.
Print Assumptions C15_fixed__ext.
Definition C15_enter__ext := C15_enter LI ok15.
Check C15_enter__ext.
Print Assumptions C15_enter__ext.
Definition C15_decimal__ext := C15_decimal LI ok15.
Check C15_decimal__ext.
Print Assumptions C15_decimal__ext.
