(* C05 on the model regenerated from the source (G_syn). Nothing but the statement. *)
From Coq Require Import NArith List.
From PK Require Import Base.Outcome Gen.Types Impl Spec.Frame Syn.Ps2 Check.C05.
Import ListNotations.
Local Open Scope N_scope.

Lemma C05_state_independent : forall s s0 w, ps_add_word syn_ps2 s w = ps_add_word syn_ps2 s0 w.
Proof. intros; reflexivity. Qed.

Lemma C05_eq : cex_C05 syn_ps2 (Ps2Decoder_mk 0 0) = [].
Proof. vm_compute. reflexivity. Qed.

Theorem C05 : forall s w, w < 2048 -> ps_add_word syn_ps2 s w = Ret (check w).
Proof. exact (C05_sound syn_ps2 (Ps2Decoder_mk 0 0) (fun s w => C05_state_independent s _ w) C05_eq). Qed.

Check C05 : forall s w, w < 2048 -> ps_add_word syn_ps2 s w = Ret (check w).
Print Assumptions C05.
Print Assumptions frame_roundtrip.
Print Assumptions single_bit_corruption_rejected.
