(* C05 on the model regenerated from the source (G_syn). Nothing but the statement. *)
From Coq Require Import NArith List.
From PK Require Import Base.Outcome Gen.Types Impl Spec.Frame Syn.Ps2 Check.Ps2M Check.C05.
Import ListNotations.
Local Open Scope N_scope.

Lemma C05_state_independent : forall s s0 w, ps_add_word syn_ps2 s w = ps_add_word syn_ps2 s0 w.
Proof. intros; reflexivity. Qed.

Lemma C05_eq : ps_at_init syn_ps2 [0] (fun s0 => cex_C05 syn_ps2 s0) = [].
Proof. vm_compute. reflexivity. Qed.
Lemma C05_init : exists s0, ps_init syn_ps2 = Ret s0. Proof. eexists; reflexivity. Qed.

Theorem C05 : forall s w, w < 2048 -> ps_add_word syn_ps2 s w = Ret (check w).
Proof.
  destruct C05_init as (s0 & Hi). pose proof C05_eq as H. rewrite (ps_at_init_elim _ _ _ _ s0 Hi) in H.
  exact (C05_sound syn_ps2 s0 (fun s w => C05_state_independent s _ w) H).
Qed.

Check C05 : forall s w, w < 2048 -> ps_add_word syn_ps2 s w = Ret (check w).
Print Assumptions C05.
Print Assumptions frame_roundtrip.
Print Assumptions single_bit_corruption_rejected.
