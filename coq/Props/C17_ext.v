(* C17 on the tables of the compiled crate (G_ext) *)
From Coq Require Import NArith Bool List String.
From PK Require Import Base.Outcome Base.Finite Gen.Types Impl Spec.Known Ext.Lay ExtI.Lay Check.Lay Check.C17.
Import ListNotations.
Notation LI := ext_lay.
Notation PI := ext_preds.

Lemma ok17 : ok_C17 LI = true. Proof. vm_compute. reflexivity. Qed.
Lemma dist : all_distinct LI = true. Proof. vm_compute. reflexivity. Qed.

Definition C17_ext := C17_sound LI ok17.
Check C17_ext.
Print Assumptions C17_ext.
Definition C17_distinct_ext := distinct_sound LI dist.
Check C17_distinct_ext.
Print Assumptions C17_distinct_ext.
