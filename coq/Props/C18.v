(* C18 - Keyboard equals its three stages wired in sequence, with stages isolated.
   Symbolic: for EVERY scancode-set implementation adv and EVERY layout f, each Keyboard operation
   equals the composition of the stage functions (Spec/Compose.v), where the stages are the generated
   Ps2Decoder / EventDecoder functions themselves, kept opaque. *)
From Coq Require Import NArith Bool List String.
From PK Require Import Base.Outcome Base.Ctl Gen.Types Gen.Lib Impl Spec.Compose.
Import ListNotations.

Section AnyStages.
  Context {L S : Type}.
  Variable f : L -> KeyCode -> Modifiers -> HandleControl -> outcome DecodedKey.
  Variable adv : S -> N -> outcome (S * Result (option KeyEvent) Error).

  (* Shape-tolerant: unfold everything except the stage functions (helper functions of the Keyboard impl
     included), then split on every stage result that is scrutinised. *)
  Ltac kb_solve :=
    cbv -[Ps2Decoder_add_bit Ps2Decoder_add_word Ps2Decoder_clear Ps2Decoder_new
          EventDecoder_process_keyevent EventDecoder_set_ctrl_handling EventDecoder_get_ctrl_handling EventDecoder_new];
    repeat match goal with
           | |- context [match ?x with _ => _ end] =>
               lazymatch x with
               | context [match _ with _ => _ end] => fail     (* innermost scrutinees first *)
               | _ => destruct x
               end
           end;
    repeat match goal with u : unit |- _ => destruct u end;
    reflexivity.

  Theorem C18_add_byte : forall (k : Keyboard L S) b,
    Keyboard_add_byte f adv k b = spec_add_byte adv k b.
  Proof. intros [p s d] b. kb_solve. Qed.

  Theorem C18_add_word : forall (k : Keyboard L S) w,
    Keyboard_add_word f adv k w = spec_add_word Ps2Decoder_add_word adv k w.
  Proof. intros [p s d] w. kb_solve. Qed.

  Theorem C18_add_bit : forall (k : Keyboard L S) bit,
    Keyboard_add_bit f adv k bit = spec_add_bit Ps2Decoder_add_bit adv k bit.
  Proof. intros [p s d] bit. kb_solve. Qed.

  Theorem C18_process_keyevent : forall (k : Keyboard L S) ev,
    Keyboard_process_keyevent f adv k ev = spec_kb_process (EventDecoder_process_keyevent f) k ev.
  Proof. intros [p s d] ev. kb_solve. Qed.

  Theorem C18_clear : forall (k : Keyboard L S),
    Keyboard_clear f adv k = spec_kb_clear Ps2Decoder_clear k.
  Proof. intros [p s d]. kb_solve. Qed.

  Theorem C18_set_ctrl_handling : forall (k : Keyboard L S) hc,
    Keyboard_set_ctrl_handling f adv k hc = spec_kb_set_mode (EventDecoder_set_ctrl_handling f) k hc.
  Proof. intros [p s d] hc. kb_solve. Qed.

  Theorem C18_get_modifiers : forall (k : Keyboard L S),
    Keyboard_get_modifiers f adv k = Ret (EventDecoder_modifiers (Keyboard_event_decoder k)).
  Proof. intros [p s d]. kb_solve. Qed.

  Theorem C18_get_ctrl_handling : forall (k : Keyboard L S),
    Keyboard_get_ctrl_handling f adv k = EventDecoder_get_ctrl_handling f (Keyboard_event_decoder k).
  Proof. intros [p s d]. kb_solve. Qed.

  Theorem C18_new : forall s l hc,
    Keyboard_new f adv s l hc =
    match Ps2Decoder_new, EventDecoder_new f l hc with
    | Ret p, Ret d => Ret (Keyboard_mk p s d)
    | _, _ => Panic
    end.
  Proof. intros s l hc. kb_solve. Qed.
End AnyStages.

(* consequences spelled out: isolation of the stages *)
Corollary rejected_frame_changes_nothing : forall L S f adv (k : Keyboard L S) w e,
  Ps2Decoder_add_word (Keyboard_ps2_decoder k) w = Ret (Err e) ->
  Keyboard_add_word f adv k w = Ret (k, Err e).
Proof. intros L S f adv k w e H. rewrite C18_add_word. unfold spec_add_word. rewrite H. reflexivity. Qed.

Corollary bit_error_touches_only_the_frame_stage : forall L S f adv (k : Keyboard L S) bit p' e,
  Ps2Decoder_add_bit (Keyboard_ps2_decoder k) bit = Ret (p', Err e) ->
  Keyboard_add_bit f adv k bit = Ret (Keyboard_mk p' (Keyboard_scancode_set k) (Keyboard_event_decoder k), Err e).
Proof. intros L S f adv k bit p' e H. rewrite C18_add_bit. unfold spec_add_bit. rewrite H. reflexivity. Qed.

Corollary clear_touches_only_the_frame_stage : forall L S f adv (k : Keyboard L S) k',
  Keyboard_clear f adv k = Ret (k', tt) ->
  Keyboard_scancode_set k' = Keyboard_scancode_set k /\ Keyboard_event_decoder k' = Keyboard_event_decoder k.
Proof.
  intros L S f adv k k' H. rewrite C18_clear in H. unfold spec_kb_clear in H.
  destruct (Ps2Decoder_clear (Keyboard_ps2_decoder k)) as [[p' u]|]; [|discriminate].
  injection H as <-. split; reflexivity.
Qed.

Print Assumptions C18_add_byte.
Print Assumptions C18_add_word.
Print Assumptions C18_add_bit.
Print Assumptions C18_process_keyevent.
Print Assumptions C18_clear.
Print Assumptions C18_set_ctrl_handling.
Print Assumptions rejected_frame_changes_nothing.
