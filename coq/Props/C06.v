(* C06 on the model regenerated from the source (G_syn). *)
From Coq Require Import NArith List String.
From PK Require Import Base.Outcome Base.Machine Gen.Types Impl Spec.Frame Syn.Ps2 Check.Ps2M Check.C06.
Import ListNotations.

Lemma C06_closed : closed_C06 syn_ps2 = true.
Proof. vm_compute. reflexivity. Qed.

(* stated for the decoder's own initial state, whatever fields it has *)
Theorem C06 : forall s0, ps_init syn_ps2 = Ret s0 -> forall ops : list bit_op,
  outs (ps2_machine syn_ps2) s0 ops = outs frame_machine [] ops
  /\ outs (ps2_machine syn_ps2) s0 ops <> Panic.
Proof. intros s0 Hi. exact (C06_sound syn_ps2 s0 Hi C06_closed). Qed.
Example C06_init_exists : exists s0, ps_init syn_ps2 = Ret s0. Proof. eexists; reflexivity. Qed.

Check C06 : forall s0, ps_init syn_ps2 = Ret s0 -> forall ops : list bit_op,
  outs (ps2_machine syn_ps2) s0 ops = outs frame_machine [] ops
  /\ outs (ps2_machine syn_ps2) s0 ops <> Panic.
Check frame_whole : forall bits, List.length bits = 11%nat ->
  run frame_machine [] (map Bit bits) = Ret ([], repeat (Ok None) 10 ++ [lift_check (word_of_bits bits)]).
Check frame_independent.
Check frame_clear.
Print Assumptions C06.
Print Assumptions frame_whole.
Print Assumptions frame_independent.
Eval vm_compute in ("evaluations"%string, N.of_nat (3 * List.length (lists_upto 10))).
Eval vm_compute in ("states"%string, N.of_nat (List.length (lists_upto 10))).
