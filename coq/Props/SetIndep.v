(* "Everything above the scancode layer - events, modifiers, characters - is independent of which scancode
   set the hardware delivers" (C13's second sentence), on the generated model of the whole crate:
   for EVERY layout implementation, every Ctrl mode and every stream of key sequences of any length
   (those of Check/C13s.v), a Keyboard on Scancode Set 2 fed the stream and a Keyboard on Scancode Set 1
   fed its i8042 translation report the same key events AND decode them to the same keys (so their modifier
   records evolve identically).  Composite: needs C13 (stream level), C18, C04 and C14 at once; recorded
   in the evidence of C13, never decisive. *)
From Coq Require Import NArith Arith Bool List String Lia.
From PK Require Import Base.Outcome Base.Ctl Base.Finite Base.Machine Gen.Types Gen.Lib Gen.Set1 Gen.Set2 Impl
  Spec.ScanRef Spec.ScanAuto Spec.EventRec Spec.Compose Spec.Pipeline
  Syn.Set1 Syn.Set2 Check.Scan Check.C19 Check.C13 Check.C13s Props.PipelineGen Props.Pipeline.
From PK Require Props.C13s Props.C18.
Import ListNotations.
Local Open Scope N_scope.

Section AnyLayout.
  Context {L : Type} (f : L -> KeyCode -> Modifiers -> HandleControl -> outcome DecodedKey).

  (* what the usage loop makes of a list of scancode-level results, starting with event decoder d *)
  Fixpoint decode_outs (d : EventDecoder L) (os : list sc_result) : outcome (list pout) :=
    match os with
    | [] => Ret []
    | Ok (Some ev) :: rest =>
        match spec_process f d ev with
        | Ret (d', dk) => omap (cons (OFeed (Ok (Some ev)) (Some dk))) (decode_outs d' rest)
        | Panic => Panic
        end
    | o :: rest => omap (cons (OFeed o None)) (decode_outs d rest)
    end.

  Definition loud (os : list pout) : list pout :=
    filter (fun o => match o with OFeed (Ok None) None => false | _ => true end) os.

  (* silence changes nothing above the scancode layer *)
  Lemma decode_said : forall os d, omap loud (decode_outs d os) = omap loud (decode_outs d (said os)).
  Proof.
    induction os as [|o os IH]; intros d; [reflexivity|].
    destruct o as [[ev|]|e]; cbn [decode_outs said filter silent negb].
    - destruct (spec_process f d ev) as [[d' dk]|]; [|reflexivity].
      specialize (IH d'). change (filter (fun o => negb (silent o)) os) with (said os).
      destruct (decode_outs d' os) as [l1|], (decode_outs d' (said os)) as [l2|]; unfold loud in *; cbn [omap filter] in *;
        first [discriminate IH | reflexivity | injection IH as IH; rewrite IH; reflexivity].
    - specialize (IH d). change (filter (fun o => negb (silent o)) os) with (said os).
      destruct (decode_outs d os) as [l1|], (decode_outs d (said os)) as [l2|]; unfold loud in *; cbn [omap filter] in *;
        first [discriminate IH | reflexivity | injection IH as IH; rewrite IH; reflexivity].
    - specialize (IH d). change (filter (fun o => negb (silent o)) os) with (said os).
      destruct (decode_outs d os) as [l1|], (decode_outs d (said os)) as [l2|]; unfold loud in *; cbn [omap filter] in *;
        first [discriminate IH | reflexivity | injection IH as IH; rewrite IH; reflexivity].
  Qed.

  (* a Keyboard fed bytes: the scancode stage runs on its own, the event decoder sees its events *)
  Lemma kb_bytes : forall (I : ScanImpl) bs p s d os s',
    run (scan_machine I) s bs = Ret (s', os) ->
    outs (kb_machine f I) (Keyboard_mk p s d) (map PByte bs) = decode_outs d os.
  Proof.
    intros I. induction bs as [|b bs IH]; intros p s d os s' R.
    - injection R as _ <-. reflexivity.
    - cbn [run] in R. destruct (m_step (scan_machine I) s b) as [[s1 o]|] eqn:E; [|discriminate].
      destruct (run (scan_machine I) s1 bs) as [[s2 os']|] eqn:R'; [|discriminate]. injection R as _ <-.
      change (m_st (scan_machine I)) with (sc_st I) in *.
      unfold outs in *. cbn [map run m_step kb_machine kb_ustep].
      rewrite Props.C18.C18_add_byte. unfold spec_add_byte. cbn [Keyboard_scancode_set]. cbn [m_step scan_machine] in E. rewrite E.
      unfold with_scan. cbn [Keyboard_ps2_decoder Keyboard_event_decoder kb_feed].
      destruct o as [[ev|]|e]; cbn [decode_outs].
      + rewrite Props.C18.C18_process_keyevent. unfold spec_kb_process. cbn [Keyboard_event_decoder]. rewrite (process_eq f).
        destruct (spec_process f d ev) as [[d' dk]|]; [|reflexivity]. unfold with_ev. cbn [Keyboard_ps2_decoder Keyboard_scancode_set].
        specialize (IH p s1 d' os' s2 R').
        destruct (run (kb_machine f I) (Keyboard_mk p s1 d') (map PByte bs)) as [[k' l]|]; cbn [omap snd] in IH |- *; rewrite <- IH; reflexivity.
      + specialize (IH p s1 d os' s2 R').
        destruct (run (kb_machine f I) (Keyboard_mk p s1 d) (map PByte bs)) as [[k' l]|]; cbn [omap snd] in IH |- *; rewrite <- IH; reflexivity.
      + specialize (IH p s1 d os' s2 R').
        destruct (run (kb_machine f I) (Keyboard_mk p s1 d) (map PByte bs)) as [[k' l]|]; cbn [omap snd] in IH |- *; rewrite <- IH; reflexivity.
  Qed.

  Theorem keyboard_set_independent : forall s1 s2 l hc kb1 kb2 toks,
    sc_init syn_set1 = Ret s1 -> sc_init syn_set2 = Ret s2 ->
    Keyboard_new f (sc_step syn_set1) s1 l hc = Ret kb1 -> Keyboard_new f (sc_step syn_set2) s2 l hc = Ret kb2 ->
    Forall (good syn_set2) toks ->
    omap loud (outs (kb_machine f syn_set2) kb2 (map PByte (flat_map tok2 toks))) =
    omap loud (outs (kb_machine f syn_set1) kb1 (map PByte (flat_map tok1 toks))).
  Proof.
    intros s1 s2 l hc kb1 kb2 toks Hi1 Hi2 Hn1 Hn2 Hg.
    rewrite new_kb in Hn1, Hn2. injection Hn1 as <-. injection Hn2 as <-.
    assert (Hg' : Forall (good_s syn_set2) (map SKey toks)).
    { apply Forall_forall. intros x Hx. apply in_map_iff in Hx as (t & <- & Ht). rewrite Forall_forall in Hg. exact (Hg t Ht). }
    destruct (Props.C13s.C13_stream s1 s2 Hi1 Hi2 (map SKey toks) Hg') as (rs & R2 & R1 & Hall).
    assert (F2 : flat_map stok2 (map SKey toks) = flat_map tok2 toks) by (rewrite flat_map_concat_map, map_map, <- flat_map_concat_map; reflexivity).
    assert (F1 : flat_map stok1 (map SKey toks) = flat_map tok1 toks) by (rewrite flat_map_concat_map, map_map, <- flat_map_concat_map; reflexivity).
    rewrite F2 in R2. rewrite F1 in R1.
    rewrite (kb_bytes syn_set2 _ _ _ _ _ _ R2), (kb_bytes syn_set1 _ _ _ _ _ _ R1).
    rewrite decode_said, (decode_said (flat_map snd rs)), (keys_said_equal toks rs Hall). reflexivity.
  Qed.
End AnyLayout.

Check @keyboard_set_independent : forall L (f : L -> KeyCode -> Modifiers -> HandleControl -> outcome DecodedKey) s1 s2 l hc kb1 kb2 toks,
  sc_init syn_set1 = Ret s1 -> sc_init syn_set2 = Ret s2 ->
  Keyboard_new f (sc_step syn_set1) s1 l hc = Ret kb1 -> Keyboard_new f (sc_step syn_set2) s2 l hc = Ret kb2 ->
  Forall (good syn_set2) toks ->
  omap (loud) (outs (kb_machine f syn_set2) kb2 (map PByte (flat_map tok2 toks))) =
  omap (loud) (outs (kb_machine f syn_set1) kb1 (map PByte (flat_map tok1 toks))).
Print Assumptions keyboard_set_independent.
