(* C13 on syn *)
From Coq Require Import NArith List String.
From PK Require Import Base.Outcome Base.Machine Gen.Types Impl Spec.ScanRef Spec.ScanAuto Syn.Set1 Syn.Set2 Check.Scan Check.C19 Check.C13.
Import ListNotations.
Local Open Scope N_scope.
Notation I1 := syn_set1.
Notation I2 := syn_set2.

Lemma a_ok : cex_a_C13 I1 I2 = []. Proof. vm_compute. reflexivity. Qed.
Lemma b_ok : cex_b_C13 I1 I2 = []. Proof. vm_compute. reflexivity. Qed.

Theorem C13_a : forall p brk c2 c1 k st,
  c2 < 256 -> code_position p false c2 = true -> xlat c2 = Some c1 ->
  known13 (wit_a p brk c2) = false ->
  last_out I2 (seq_set2 p brk c2) = Ret (Ok (Some (KeyEvent_mk k st))) -> is_status_key k = false ->
  ev_of (last_out I1 (seq_set1 p brk c1)) = Some (k, st).
Proof. exact (C13_set2_to_set1 I1 I2 a_ok). Qed.
Theorem C13_b : forall p brk c1 k st,
  c1 < 128 -> known13 (wit_b p brk c1) = false ->
  last_out I1 (seq_set1 p brk c1) = Ret (Ok (Some (KeyEvent_mk k st))) ->
  exists c2, c2 < 256 /\ xlat c2 = Some c1 /\ code_position p false c2 = true /\
             ev_of (last_out I2 (seq_set2 p brk c2)) = Some (k, st).
Proof. exact (C13_set1_to_set2 I1 I2 b_ok). Qed.
Print Assumptions C13_a.
Print Assumptions C13_b.
Eval vm_compute in ("evaluations"%string, 2 * N.of_nat (List.length dom3)).
