(* C14 on the recording-layout instance of the generated event decoder - the instance that is compared with
   the tables of the compiled crate (Corr/Ev.v); part of the correspondence, not of the property's proof. *)
From Coq Require Import NArith Bool List String.
From PK Require Import Base.Outcome Base.Ctl Gen.Types Gen.Lib Impl Spec.Event Syn.Ev Check.Ev.
Import ListNotations.

(* the same on the recording-layout instance used for the correspondence with the compiled crate *)
Lemma C14_syn_res : cex_res syn_ev = []. Proof. vm_compute. reflexivity. Qed.
Lemma C14_syn_mode : cex_setmode syn_ev = []. Proof. vm_compute. reflexivity. Qed.
Lemma C14_syn_init : cex_init14 syn_ev = []. Proof. vm_compute. reflexivity. Qed.
Theorem C14_recording : forall hc ops, exists s0, ev_init syn_ev hc = Ret s0 /\ snd s0 = hc /\ results_ok syn_ev s0 ops.
Proof. exact (C14_from_new syn_ev C14_syn_res C14_syn_mode C14_syn_init). Qed.
Print Assumptions C14_recording.
Eval vm_compute in ("evaluations"%string, N.of_nat (List.length all_steps + List.length all_modes)).
Eval vm_compute in ("sample"%string, map (fun ev => spec_ev_step (initial_mods, HandleControl_Ignore) ev)
   [KeyEvent_mk KeyCode_A KeyState_Down; KeyEvent_mk KeyCode_LShift KeyState_Down; KeyEvent_mk KeyCode_NumpadLock KeyState_Down]).
