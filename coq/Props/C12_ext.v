(* C12 on the tables of the compiled crate (G_ext) *)
From Coq Require Import NArith Bool List String.
From PK Require Import Base.Outcome Base.Finite Gen.Types Impl Spec.Known Ext.Lay ExtI.Lay Check.Lay Check.C12.
Import ListNotations.
Notation LI := ext_lay.
Notation PI := ext_preds.

Lemma ok12 : cex_C12 LI = []. Proof. vm_compute. reflexivity. Qed.

Definition C12_ext := C12_sound LI ok12.
Check C12_ext.
Print Assumptions C12_ext.
