(* C01 on the model regenerated from the source (G_syn). *)
From Coq Require Import NArith List String.
From PK Require Import Base.Outcome Base.Machine Gen.Types Impl Spec.ScanRef Spec.ScanAuto Syn.Set2 Check.Scan Check.C01 Enc.
Import ListNotations.
Local Open Scope N_scope.

Lemma C01_closed : closed_C01 syn_set2 = true.
Proof. vm_compute. reflexivity. Qed.

Theorem C01 : forall bs, Forall byte bs ->
  outs (scan_machine syn_set2) (ScancodeSet2_mk DecodeState_Start) bs = outs auto2 ctx2_init bs
  /\ outs (scan_machine syn_set2) (ScancodeSet2_mk DecodeState_Start) bs <> Panic.
Proof. exact (C01_sound syn_set2 _ eq_refl C01_closed). Qed.

Check C01 : forall bs, Forall byte bs ->
  outs (scan_machine syn_set2) (ScancodeSet2_mk DecodeState_Start) bs = outs auto2 ctx2_init bs
  /\ outs (scan_machine syn_set2) (ScancodeSet2_mk DecodeState_Start) bs <> Panic.
Check set2_sequence : forall p brk c, c < 256 -> code_position p brk c = true ->
  run auto2 ctx2_init (seq2 p brk c) =
  Ret (ctx2_init, repeat (Ok None) (List.length (path2 (p, brk))) ++ [code2 p brk c]).
Print Assumptions C01.
Print Assumptions set2_sequence.
Eval vm_compute in ("evaluations"%string, 6 * 256).
Eval vm_compute in ("sample"%string, map (fun b => (b, Enc.enc_sc (omap snd (sc_step syn_set2 (ScancodeSet2_mk DecodeState_Extended) b)))) [0x11; 0x12; 0x70; 0xF0; 0x00]).
