(* C01 on the model regenerated from the source (G_syn). *)
From Coq Require Import NArith List String.
From PK Require Import Base.Outcome Base.Machine Gen.Types Impl Spec.ScanRef Spec.ScanAuto Syn.Set2 Check.Scan Check.C01 Enc.
Import ListNotations.
Local Open Scope N_scope.

Lemma C01_closed : closed_C01 syn_set2 = true.
Proof. vm_compute. reflexivity. Qed.

(* stated for the decoder's own initial state, whatever fields it has *)
Theorem C01 : forall s0, sc_init syn_set2 = Ret s0 -> forall bs, Forall byte bs ->
  outs (scan_machine syn_set2) s0 bs = outs auto2 ctx2_init bs
  /\ outs (scan_machine syn_set2) s0 bs <> Panic.
Proof. intros s0 Hi. exact (C01_sound syn_set2 s0 Hi C01_closed). Qed.
Example C01_init_exists : exists s0, sc_init syn_set2 = Ret s0. Proof. eexists; reflexivity. Qed.

Check C01 : forall s0, sc_init syn_set2 = Ret s0 -> forall bs, Forall byte bs ->
  outs (scan_machine syn_set2) s0 bs = outs auto2 ctx2_init bs
  /\ outs (scan_machine syn_set2) s0 bs <> Panic.
Check set2_sequence : forall p brk c, c < 256 -> code_position p brk c = true ->
  run auto2 ctx2_init (seq2 p brk c) =
  Ret (ctx2_init, repeat (Ok None) (List.length (path2 (p, brk))) ++ [code2 p brk c]).
Print Assumptions C01.
Print Assumptions set2_sequence.
Eval vm_compute in ("evaluations"%string, 6 * 256).
Eval vm_compute in ("sample"%string, map (fun b => (b, Enc.enc_sc (at_init syn_set2 Panic (fun s0 => omap (fun os => last os (Ok None)) (outs (scan_machine syn_set2) s0 [0xE0; b]))))) [0x11; 0x12; 0x70; 0xF0; 0x00]).
