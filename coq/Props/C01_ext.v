(* C01 on the tables of the compiled crate (G_ext). *)
From Coq Require Import NArith List String.
From PK Require Import Base.Outcome Base.Machine Gen.Types Impl Spec.ScanRef Spec.ScanAuto Ext.Set2 ExtI.Scan Check.Scan Check.C01.
Import ListNotations.
Local Open Scope N_scope.

Lemma C01_ext_closed : closed_C01 ext_set2 = true.
Proof. vm_compute. reflexivity. Qed.

Theorem C01_ext : forall bs, Forall byte bs ->
  outs (scan_machine ext_set2) 0 bs = outs auto2 ctx2_init bs /\ outs (scan_machine ext_set2) 0 bs <> Panic.
Proof. exact (C01_sound ext_set2 0 eq_refl C01_ext_closed). Qed.
Print Assumptions C01_ext.
