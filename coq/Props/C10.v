(* C10 on the model regenerated from the source (G_syn) *)
From Coq Require Import NArith Bool List String.
From PK Require Import Base.Outcome Base.Finite Gen.Types Impl Spec.Known Gen.All Syn.Lay Syn.Preds Check.Lay Check.C10.
Import ListNotations.
Notation LI := syn_lay.
Notation PI := syn_preds.

Lemma ok10 : ok_C10 LI = true. Proof. vm_compute. reflexivity. Qed.

Definition C10 := C10_sound LI ok10.
Check C10.
Print Assumptions C10.
Eval vm_compute in ("evaluations"%string, (10 * 124 * 512 * 2)%N).
