(* C17 on the model regenerated from the source (G_syn) *)
From Coq Require Import NArith Bool List String.
From PK Require Import Base.Outcome Base.Finite Gen.Types Impl Spec.Known Gen.All Syn.Lay Syn.Preds Check.Lay Check.C17.
Import ListNotations.
Notation LI := syn_lay.
Notation PI := syn_preds.

Lemma ok17 : ok_C17 LI = true. Proof. vm_compute. reflexivity. Qed.
Lemma dist : all_distinct LI = true. Proof. vm_compute. reflexivity. Qed.

Definition C17 := C17_sound LI ok17.
Check C17.
Print Assumptions C17.
Definition C17_distinct := distinct_sound LI dist.
Check C17_distinct.
Print Assumptions C17_distinct.

(* symbolic: each wrapper arm returns whatever the wrapped layout returns, for every key, record and mode *)
Theorem C17_arms : forall l k m hc,
  AnyLayout_map_keycode l k m hc = syn_lay_map l k m hc /\ RefAnyLayout_map_keycode l k m hc = syn_lay_map l k m hc.
Proof.
  intros l k m hc. destruct l as [x|x|x|x|x|x|x|x|x|x]; split;
    cbv [AnyLayout_map_keycode RefAnyLayout_map_keycode syn_lay_map Base.Ctl.run_fn Base.Ctl.cbind Base.Ctl.call Base.Ctl.cret];
    match goal with |- context [match ?t with Ret _ => _ | Panic => _ end] => destruct t end; reflexivity.
Qed.
Print Assumptions C17_arms.
Eval vm_compute in ("evaluations"%string, (10 * 124 * 512 * 2)%N).
