(* Non-vacuity of Props/Pipeline.v: a concrete run of the generated Keyboard (German layout through
   AnyLayout, Set 2) on the wire. *)
From Coq Require Import NArith Arith Bool List String Lia.
From PK Require Import Base.Outcome Base.Machine Gen.All Impl Spec.Frame Spec.ScanAuto Spec.EventRec Spec.Pipeline
  Syn.Set2 Props.PipelineGen Props.Pipeline.
Import ListNotations.
Local Open Scope N_scope.

(* non-vacuity: left Shift down, A down, on the wire, through the generated Keyboard with the German layout *)
Example shift_a_on_the_wire :
  omap (filter (fun o => match o with OFeed (Ok None) None => false | _ => true end))
       (outs (kb_machine AnyLayout_map_keycode syn_set2)
             (Keyboard_mk (Ps2Decoder_mk 0 0) (ScancodeSet2_mk DecodeState_Start)
                          (EventDecoder_mk HandleControl_Ignore initial_mods (AnyLayout_De105Key De105Key_mk)))
             (flat_map (fun b => map PBit (frame_bits b)) [0x12; 0x1C]))
  = Ret [OFeed (Ok (Some (KeyEvent_mk KeyCode_LShift KeyState_Down))) (Some (Some (DecodedKey_RawKey KeyCode_LShift)));
         OFeed (Ok (Some (KeyEvent_mk KeyCode_A KeyState_Down))) (Some (Some (DecodedKey_Unicode 65)))].
Proof. vm_compute. reflexivity. Qed.

(* the hypotheses of pipeline_set2 are met by what Keyboard::new builds *)
Example new_keyboard_exists : exists s0 kb0,
  sc_init syn_set2 = Ret s0 /\
  Keyboard_new AnyLayout_map_keycode (sc_step syn_set2) s0 (AnyLayout_De105Key De105Key_mk) HandleControl_Ignore = Ret kb0.
Proof. eexists. eexists. split; reflexivity. Qed.
(* and a Set 1 call sequence that avoids the excepted cells exists (so pipeline_set1 is not vacuous) *)
Example clean_set1_sequence :
  cleanb AnyLayout_map_keycode auto1 Check.C02.exc_C02 (pinit auto1 Spec.ScanRef.P0 (AnyLayout_Us104Key Us104Key_mk) HandleControl_Ignore)
         [PByte 0x2A; PByte 0x1E; PByte 0x9E; PWord (encode 0xE0); PWord (encode 0x48)] = true.
Proof. vm_compute. reflexivity. Qed.
