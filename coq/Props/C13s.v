(* C13 at stream level on the model regenerated from the source (G_syn): key streams of any length decode to
   the same events through Set 2 and - after the i8042 translation - through Set 1. *)
From Coq Require Import NArith List String.
From PK Require Import Base.Outcome Base.Machine Gen.Types Impl Spec.ScanRef Spec.ScanAuto Syn.Set1 Syn.Set2 Check.Scan Check.C19 Check.C13 Check.C13s.
Import ListNotations.
Local Open Scope N_scope.
Notation I1 := syn_set1.
Notation I2 := syn_set2.

Lemma toks_ok : cex_C13s I1 I2 = []. Proof. vm_compute. reflexivity. Qed.

Lemma junk_ok : cex_junk_C13s I1 I2 = []. Proof. vm_compute. reflexivity. Qed.

Theorem C13_stream : forall s1 s2, sc_init I1 = Ret s1 -> sc_init I2 = Ret s2 ->
  forall xs, Forall (good_s I2) xs ->
  exists rs : list (list sc_result * list sc_result),
    run (scan_machine I2) s2 (flat_map stok2 xs) = Ret (s2, flat_map fst rs) /\
    run (scan_machine I1) s1 (flat_map stok1 xs) = Ret (s1, flat_map snd rs) /\
    Forall2 elem_ok xs rs.
Proof. intros s1 s2 H1 H2. exact (C13_stream_sound I1 I2 s1 s2 H1 H2 toks_ok junk_ok). Qed.

Check C13_stream : forall s1 s2, sc_init I1 = Ret s1 -> sc_init I2 = Ret s2 ->
  forall xs, Forall (good_s I2) xs ->
  exists rs : list (list sc_result * list sc_result),
    run (scan_machine I2) s2 (flat_map stok2 xs) = Ret (s2, flat_map fst rs) /\
    run (scan_machine I1) s1 (flat_map stok1 xs) = Ret (s1, flat_map snd rs) /\
    Forall2 elem_ok xs rs.
Print Assumptions C13_stream.
(* the theorem is about something: how many key sequences it covers, and both initial states exist *)
Eval vm_compute in ("considered_tokens"%string, N.of_nat (List.length (considered_toks I2))).
Eval vm_compute in ("passthrough_bytes"%string, N.of_nat (List.length (filter passthrough all_bytes))).
Eval vm_compute in ("evaluations"%string, N.of_nat (List.length dom3) + 256).
Example inits_exist : exists s1 s2, sc_init I1 = Ret s1 /\ sc_init I2 = Ret s2.
Proof. eexists. eexists. split; reflexivity. Qed.
