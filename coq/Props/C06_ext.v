(* C06 on the tables of the compiled crate (G_ext). *)
From Coq Require Import NArith List String.
From PK Require Import Base.Outcome Base.Machine Gen.Types Impl Spec.Frame Ext.Ps2 ExtI.Ps2 Check.Ps2M Check.C06.
Import ListNotations.

Lemma C06_ext_closed : closed_C06 ext_ps2 = true.
Proof. vm_compute. reflexivity. Qed.

Theorem C06_ext : forall ops : list bit_op,
  outs (ps2_machine ext_ps2) 0%N ops = outs frame_machine [] ops
  /\ outs (ps2_machine ext_ps2) 0%N ops <> Panic.
Proof. exact (C06_sound ext_ps2 0%N eq_refl C06_ext_closed). Qed.
Print Assumptions C06_ext.
