(* C15 on the model regenerated from the source (G_syn) *)
From Coq Require Import NArith Bool List String.
From PK Require Import Base.Outcome Base.Finite Gen.Types Impl Spec.Known Gen.All Syn.Lay Syn.Preds Check.Lay Check.C16 Check.C15.
Import ListNotations.
Notation LI := syn_lay.
Notation PI := syn_preds.

Lemma ok15 : all_ok_C15 LI = true. Proof. vm_compute. reflexivity. Qed.

Definition C15_digits_ := C15_digits LI ok15.
Check C15_digits_.
Print Assumptions C15_digits_.
Definition C15_fixed_ := C15_fixed LI ok15.
Check C15_fixed_.
Print Assumptions C15_fixed_.
Definition C15_enter_ := C15_enter LI ok15.
Check C15_enter_.
Print Assumptions C15_enter_.
Definition C15_decimal_ := C15_decimal LI ok15.
Check C15_decimal_.
Print Assumptions C15_decimal_.
Eval vm_compute in ("evaluations"%string, (10 * 124 * 512 * 2)%N).
