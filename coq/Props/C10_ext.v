(* C10 on the tables of the compiled crate (G_ext) *)
From Coq Require Import NArith Bool List String.
From PK Require Import Base.Outcome Base.Finite Gen.Types Impl Spec.Known Ext.Lay ExtI.Lay Check.Lay Check.C10.
Import ListNotations.
Notation LI := ext_lay.
Notation PI := ext_preds.

Lemma ok10 : ok_C10 LI = true. Proof. vm_compute. reflexivity. Qed.

Definition C10_ext := C10_sound LI ok10.
Check C10_ext.
Print Assumptions C10_ext.
