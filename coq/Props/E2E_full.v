(* (Not tied to a single property: it needs every stage to be right at once.)
   End to end, on the generated model of the whole crate: a fresh Keyboard (either scancode set, any of
   the ten layouts through AnyLayout, either mode) fed the make sequence that the reference table
   assigns to key K reports "K down" and then decodes it to exactly what the layout returns for K
   under the initial modifiers - the same through Set 1 and through Set 2 (C13's "everything above the
   scancode layer is independent of the set", C03's "end-to-end from scancodes").
   The five JIS keys are excepted for Set 1 (open known finding F1). *)
From Coq Require Import NArith Bool List String.
From PK Require Import Base.Outcome Base.Finite Gen.All Impl Enc Seq Spec.ScanRef Spec.ScanAuto Spec.Mods Syn.Lay Check.Lay.
Import ListNotations.
Local Open Scope N_scope.

Definition jis (k : KeyCode) : bool :=
  match k with KeyCode_Oem9 | KeyCode_Oem10 | KeyCode_Oem11 | KeyCode_Oem12 | KeyCode_Oem13 => true | _ => false end.

Definition bytes1 (sc : scode) : list N := path1 (fst sc) ++ [snd sc].
Definition bytes2 (sc : scode) : list N := path2 (fst sc, false) ++ [snd sc].

(* what the last byte of the sequence must report: the key event, then the decoded key *)
Definition expected (l : AnyLayout) (hc : HandleControl) (k : KeyCode) : list N :=
  let st := if is_status k then KeyState_SingleShot else KeyState_Down in
  enc_sc (Ret (Ok (Some (KeyEvent_mk k st)))) ++
  enc_dec (match event_result (fun k' => Ret (DecodedKey_RawKey k')) (fun k' => syn_lay_map l k' initial_mods hc) initial_mods (KeyEvent_mk k st) with
           | None => Ret None
           | Some r => omap Some r
           end).

Definition typed (setn : N) (li mi : N) (bytes : list N) : list N :=
  last (fst (run_case setn li mi (map KByte bytes))) [].

Definition e2e_ok (li mi : N) (row : KeyCode * option scode * option scode) : bool :=
  let '(k, s1, s2) := row in
  let l := layout_of li in
  let hc := mode_of mi in
  (match s1 with Some sc => jis k || list_eqb N.eqb (typed 1 li mi (bytes1 sc)) (expected l hc k) | None => true end) &&
  (match s2 with Some sc => list_eqb N.eqb (typed 2 li mi (bytes2 sc)) (expected l hc k) | None => true end).

Notation e2e_failures :=
  (filter (fun x : N * N * (KeyCode * option scode * option scode) => negb (e2e_ok (fst (fst x)) (snd (fst x)) (snd x)))
          (list_prod (list_prod (count_from 10 0) (count_from 2 0)) ref_table)).

Lemma e2e_full_all : e2e_failures = []. Proof. vm_compute. reflexivity. Qed.

Theorem end_to_end_full : forall li mi row, li < 10 -> mi < 2 -> In row ref_table -> e2e_ok li mi row = true.
Proof.
  intros li mi row Hl Hm Hr.
  assert (Hin : In (li, mi, row) (list_prod (list_prod (count_from 10 0) (count_from 2 0)) ref_table)).
  { apply in_prod; [apply in_prod|exact Hr]; apply count_from_In; simpl; split; try apply N.le_0_l; assumption. }
  pose proof (filter_nil_forall _ _ e2e_full_all (li, mi, row) Hin) as H. cbn [fst snd] in H.
  apply negb_false_iff in H. exact H.
Qed.
Print Assumptions end_to_end_full.
Eval vm_compute in ("evaluations"%string, N.of_nat (List.length (list_prod (list_prod (count_from 10 0) (count_from 2 0)) ref_table))).
