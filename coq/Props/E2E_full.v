(* (Not tied to a single property: it needs every stage to be right at once.)
   End to end, on the generated model of the whole crate: a fresh Keyboard (either scancode set, any of
   the ten layouts through AnyLayout, either mode) fed the make sequence that the reference table
   assigns to key K reports "K down" and then decodes it to exactly what the layout returns for K
   under the initial modifiers - the same through Set 1 and through Set 2 (C13's "everything above the
   scancode layer is independent of the set", C03's "end-to-end from scancodes").
   The five JIS keys are excepted for Set 1 (open known finding F1). *)
From Coq Require Import NArith Bool List String.
From PK Require Import Base.Outcome Base.Finite Gen.All Impl Enc Seq Spec.Frame Spec.ScanRef Spec.ScanAuto Spec.Mods Syn.Lay Check.Lay.
Import ListNotations.
Local Open Scope N_scope.

Definition jis (k : KeyCode) : bool :=
  match k with KeyCode_Oem9 | KeyCode_Oem10 | KeyCode_Oem11 | KeyCode_Oem12 | KeyCode_Oem13 => true | _ => false end.

Definition bytes1 (sc : scode) : list N := path1 (fst sc) ++ [snd sc].
Definition bytes2 (sc : scode) : list N := path2 (fst sc, false) ++ [snd sc].

(* what the last byte of the sequence must report: the key event, then the decoded key *)
Definition expected (l : AnyLayout) (hc : HandleControl) (k : KeyCode) : list N :=
  let st := if is_status k then KeyState_SingleShot else KeyState_Down in
  enc_sc (Ret (Ok (Some (KeyEvent_mk k st)))) ++
  enc_dec (match event_result (fun k' => Ret (DecodedKey_RawKey k')) (fun k' => syn_lay_map l k' initial_mods hc) initial_mods (KeyEvent_mk k st) with
           | None => Ret None
           | Some r => omap Some r
           end).

Definition typed (setn : N) (li mi : N) (bytes : list N) : list N :=
  last (fst (run_case setn li mi (map KByte bytes))) [].

Definition e2e_ok (li mi : N) (row : KeyCode * option scode * option scode) : bool :=
  let '(k, s1, s2) := row in
  let l := layout_of li in
  let hc := mode_of mi in
  (match s1 with Some sc => jis k || list_eqb N.eqb (typed 1 li mi (bytes1 sc)) (expected l hc k) | None => true end) &&
  (match s2 with Some sc => list_eqb N.eqb (typed 2 li mi (bytes2 sc)) (expected l hc k) | None => true end).

Notation e2e_failures :=
  (filter (fun x : N * N * (KeyCode * option scode * option scode) => negb (e2e_ok (fst (fst x)) (snd (fst x)) (snd x)))
          (list_prod (list_prod (count_from 10 0) (count_from 2 0)) ref_table)).

Lemma e2e_full_all : e2e_failures = []. Proof. vm_compute. reflexivity. Qed.

Theorem end_to_end_full : forall li mi row, li < 10 -> mi < 2 -> In row ref_table -> e2e_ok li mi row = true.
Proof.
  intros li mi row Hl Hm Hr.
  assert (Hin : In (li, mi, row) (list_prod (list_prod (count_from 10 0) (count_from 2 0)) ref_table)).
  { apply in_prod; [apply in_prod|exact Hr]; apply count_from_In; simpl; split; try apply N.le_0_l; assumption. }
  pose proof (filter_nil_forall _ _ e2e_full_all (li, mi, row) Hin) as H. cbn [fst snd] in H.
  apply negb_false_iff in H. exact H.
Qed.
Print Assumptions end_to_end_full.
Eval vm_compute in ("evaluations"%string, N.of_nat (List.length (list_prod (list_prod (count_from 10 0) (count_from 2 0)) ref_table))).

(* --- the same through the wire: every byte sent as an 11-bit frame, bit by bit, and as a whole word --- *)
Definition bits_of_frame (w : N) : list kop := map (fun i => KBit (N.testbit w i)) (count_from 11 0).
Definition frame_of (b : N) : N := Spec.Frame.encode b.
Definition typed_bits (setn li mi : N) (bytes : list N) : list N :=
  last (fst (run_case setn li mi (flat_map (fun b => bits_of_frame (frame_of b)) bytes))) [].
Definition typed_words (setn li mi : N) (bytes : list N) : list N :=
  last (fst (run_case setn li mi (map (fun b => KWord (frame_of b)) bytes))) [].

Definition wire_ok (li mi : N) (row : KeyCode * option scode * option scode) : bool :=
  let '(k, s1, s2) := row in
  (match s1 with Some sc => list_eqb N.eqb (typed_bits 1 li mi (bytes1 sc)) (typed 1 li mi (bytes1 sc)) &&
                            list_eqb N.eqb (typed_words 1 li mi (bytes1 sc)) (typed 1 li mi (bytes1 sc)) | None => true end) &&
  (match s2 with Some sc => list_eqb N.eqb (typed_bits 2 li mi (bytes2 sc)) (typed 2 li mi (bytes2 sc)) &&
                            list_eqb N.eqb (typed_words 2 li mi (bytes2 sc)) (typed 2 li mi (bytes2 sc)) | None => true end).

Lemma wire_all :
  filter (fun x : N * N * (KeyCode * option scode * option scode) => negb (wire_ok (fst (fst x)) (snd (fst x)) (snd x)))
         (list_prod (list_prod (count_from 10 0) (count_from 2 0)) ref_table) = [].
Proof. vm_compute. reflexivity. Qed.

(* --- with a modifier held: left Shift pressed first (through its own scancode), then the key --- *)
Definition shift_mods : Modifiers := Modifiers_mk true false false false true false false false false.
Definition expected_shifted (l : AnyLayout) (hc : HandleControl) (k : KeyCode) : list N :=
  enc_sc (Ret (Ok (Some (KeyEvent_mk k KeyState_Down)))) ++
  enc_dec (match event_result (fun k' => Ret (DecodedKey_RawKey k')) (fun k' => syn_lay_map l k' shift_mods hc) shift_mods (KeyEvent_mk k KeyState_Down) with
           | None => Ret None | Some r => omap Some r end).
Definition shifted_ok (li mi : N) (row : KeyCode * option scode * option scode) : bool :=
  let '(k, s1, s2) := row in
  let l := layout_of li in let hc := mode_of mi in
  is_status k || KeyCode_eqb k KeyCode_LShift ||
  ((match s1 with Some sc => jis k || list_eqb N.eqb (typed 1 li mi (0x2A :: bytes1 sc)) (expected_shifted l hc k) | None => true end) &&
   (match s2 with Some sc => list_eqb N.eqb (typed 2 li mi (0x12 :: bytes2 sc)) (expected_shifted l hc k) | None => true end)).
Lemma shifted_all :
  filter (fun x : N * N * (KeyCode * option scode * option scode) => negb (shifted_ok (fst (fst x)) (snd (fst x)) (snd x)))
         (list_prod (list_prod (count_from 10 0) (count_from 2 0)) ref_table) = [].
Proof. vm_compute. reflexivity. Qed.
Print Assumptions wire_all.
Print Assumptions shifted_all.
