(* Correspondence G_syn = G_ext for the frame decoder, checked by the kernel on the whole domain:
   whole-word decoding on all 65536 words, and a bisimulation between the generated bit-serial
   machine and the transition table of the compiled crate (all 2047 states x {0, 1, clear}). *)
From Coq Require Import NArith Bool List String.
From PK Require Import Base.Outcome Base.Finite Base.Machine Gen.Types Impl Spec.Frame Syn.Ps2 Ext.Ps2 ExtI.Ps2 Check.C05 Check.Ps2M.
Import ListNotations.
Local Open Scope N_scope.

(* the generated model's state for every state of the table, following the BFS tree of the dump *)
Definition syn_of_ext_tbl : list (outcome Ps2Decoder) :=
  Eval vm_compute in
    build_table (ps2_machine syn_ps2) (ps_init syn_ps2)
                (map (fun e => (N.to_nat (fst e), op_of_code (snd e))) (tl ext_ps2_parents)).
Definition syn_of_ext (s : N) : outcome Ps2Decoder := nth (N.to_nat s) syn_of_ext_tbl Panic.

Lemma corr_ps2_closed :
  closedb (ps2_machine syn_ps2) (ps2_machine ext_ps2) Ps2Decoder_eqb psres_eqb all_ops
          (fun s => s <? ext_ps2_states) (all_below ext_ps2_states) syn_of_ext (fun _ _ => false) = true.
Proof. vm_compute. reflexivity. Qed.

Theorem corr_ps2_bits : forall s0, ps_init syn_ps2 = Ret s0 -> forall ops : list bit_op,
  outs (ps2_machine syn_ps2) s0 ops = outs (ps2_machine ext_ps2) 0 ops
  /\ outs (ps2_machine syn_ps2) s0 ops <> Panic.
Proof.
  intros s0 Hi ops.
  apply (bisim_outs (ps2_machine syn_ps2) (ps2_machine ext_ps2) Ps2Decoder_eqb psres_eqb all_ops
                    (fun s => s <? ext_ps2_states) (all_below ext_ps2_states)
                    (fun s H => all_below_complete _ s (proj1 (N.ltb_lt _ _) H)) syn_of_ext (fun _ _ => false) (fun _ _ => eq_refl) corr_ps2_closed).
  - apply Forall_forall. intros op _. apply all_ops_complete.
  - reflexivity.
  - (* state 0 of the table is the initial state: the first entry of the rebuilt table *)
    change (syn_of_ext 0) with (nth 0 syn_of_ext_tbl Panic).
    assert (E : nth 0 syn_of_ext_tbl Panic = ps_init syn_ps2) by (vm_compute; reflexivity).
    rewrite E. exact Hi.
Qed.

Eval vm_compute in ("traces_validated_against_impl"%string, 3 * ext_ps2_states).
Print Assumptions corr_ps2_bits.
