(* Correspondence G_syn = G_ext for the event decoder (recording layout): all 1024 states x 372 events,
   both mode changes in every state, both initial states. *)
From Coq Require Import NArith Bool List String.
From PK Require Import Base.Outcome Base.Finite Gen.Types Impl Spec.Event Syn.Ev Ext.Event ExtI.Ev Check.Ev.
Import ListNotations.

Lemma corr_ev_step_b :
  forallb (fun x : ev_state * KeyEvent => step_res_eqb (ev_step syn_ev (fst x) (snd x)) (ev_step ext_ev (fst x) (snd x))) all_steps = true.
Proof. vm_compute. reflexivity. Qed.
Lemma corr_ev_mode_b :
  forallb (fun x : ev_state * HandleControl => outcome_eqb ev_state_eqb (ev_setmode syn_ev (fst x) (snd x)) (ev_setmode ext_ev (fst x) (snd x))) all_modes = true.
Proof. vm_compute. reflexivity. Qed.
Lemma corr_ev_init_b :
  forallb (fun hc => outcome_eqb ev_state_eqb (ev_init syn_ev hc) (ev_init ext_ev hc)) all_HandleControl = true.
Proof. vm_compute. reflexivity. Qed.

Theorem corr_ev_step : forall s ev, ev_step syn_ev s ev = ev_step ext_ev s ev.
Proof.
  intros s ev. pose proof corr_ev_step_b as H. rewrite forallb_forall in H.
  specialize (H (s, ev) (in_prod _ _ _ _ (all_ev_state_complete s) (all_KeyEvent_complete ev))).
  unfold step_res_eqb in H. beq H. exact H.
Qed.
Theorem corr_ev_mode : forall s hc, ev_setmode syn_ev s hc = ev_setmode ext_ev s hc.
Proof.
  intros s hc. pose proof corr_ev_mode_b as H. rewrite forallb_forall in H.
  specialize (H (s, hc) (in_prod _ _ _ _ (all_ev_state_complete s) (all_HandleControl_complete hc))).
  beq H. exact H.
Qed.
Eval vm_compute in ("traces_validated_against_impl"%string, N.of_nat (List.length all_steps + List.length all_modes + 2)).
Print Assumptions corr_ev_step.
Print Assumptions corr_ev_mode.
