(* Correspondence G_syn = G_ext for the frame decoder, checked by the kernel on the whole domain:
   whole-word decoding on all 65536 words, and a bisimulation between the generated bit-serial
   machine and the transition table of the compiled crate (all 2047 states x {0, 1, clear}). *)
From Coq Require Import NArith Bool List String.
From PK Require Import Base.Outcome Base.Finite Base.Machine Gen.Types Impl Spec.Frame Syn.Ps2 Ext.Ps2 ExtI.Ps2 Check.C05.
Import ListNotations.
Local Open Scope N_scope.

Lemma corr_ps2_words_b :
  forallb (fun w => outcome_eqb res_eqb (ps_add_word syn_ps2 (Ps2Decoder_mk 0 0) w) (ps_add_word ext_ps2 0 w))
          (all_below 65536) = true.
Proof. vm_compute. reflexivity. Qed.

Theorem corr_ps2_words : forall s w, w < 65536 -> ps_add_word syn_ps2 s w = ps_add_word ext_ps2 0 w.
Proof.
  intros s w Hw. change (ps_add_word syn_ps2 s w) with (ps_add_word syn_ps2 (Ps2Decoder_mk 0 0) w).
  pose proof (forallb_forall (fun w => outcome_eqb res_eqb (ps_add_word syn_ps2 (Ps2Decoder_mk 0 0) w) (ps_add_word ext_ps2 0 w)) (all_below 65536)) as [H _].
  specialize (H corr_ps2_words_b w (all_below_complete 65536 w Hw)).
  destruct (ores_eqb_spec (ps_add_word syn_ps2 (Ps2Decoder_mk 0 0) w) (ps_add_word ext_ps2 0 w)); [assumption | discriminate].
Qed.

(* the two bit-serial machines *)
Definition ps2_machine (I : Ps2Impl) : machine bit_op ps_result := {|
  m_st := ps_st I;
  m_step := fun s op =>
    match op with
    | Bit b => ps_add_bit I s b
    | Clear => omap (fun s' => (s', Ok None)) (ps_clear I s)
    end
|}.

Definition op_of_code (c : N) : bit_op := match c with 0 => Bit false | 1 => Bit true | _ => Clear end.
Definition all_ops : list bit_op := [Bit false; Bit true; Clear].
Lemma all_ops_complete : forall op, In op all_ops.
Proof. intros [[]|]; simpl; auto. Qed.

Definition psres_eqb : ps_result -> ps_result -> bool := Result_eqb (option_eqb N.eqb) Error_eqb.
#[global] Instance psres_eqb_ok : EqbSpec psres_eqb.
Proof. unfold psres_eqb. typeclasses eauto. Qed.

(* the generated model's state for every state of the table, following the BFS tree of the dump *)
Definition syn_of_ext_tbl : list (outcome Ps2Decoder) :=
  Eval vm_compute in
    build_table (ps2_machine syn_ps2) (ps_init syn_ps2)
                (map (fun e => (N.to_nat (fst e), op_of_code (snd e))) (tl ext_ps2_parents)).
Definition syn_of_ext (s : N) : outcome Ps2Decoder := nth (N.to_nat s) syn_of_ext_tbl Panic.

Lemma corr_ps2_closed :
  closedb (ps2_machine syn_ps2) (ps2_machine ext_ps2) Ps2Decoder_eqb psres_eqb all_ops
          (fun s => s <? ext_ps2_states) (all_below ext_ps2_states) syn_of_ext = true.
Proof. vm_compute. reflexivity. Qed.

Theorem corr_ps2_bits : forall ops : list bit_op,
  outs (ps2_machine syn_ps2) (Ps2Decoder_mk 0 0) ops = outs (ps2_machine ext_ps2) 0 ops
  /\ outs (ps2_machine syn_ps2) (Ps2Decoder_mk 0 0) ops <> Panic.
Proof.
  intros ops.
  apply (bisim_outs (ps2_machine syn_ps2) (ps2_machine ext_ps2) Ps2Decoder_eqb psres_eqb all_ops
                    (fun s => s <? ext_ps2_states) (all_below ext_ps2_states)
                    (fun s H => all_below_complete _ s (proj1 (N.ltb_lt _ _) H)) syn_of_ext corr_ps2_closed).
  - apply Forall_forall. intros op _. apply all_ops_complete.
  - reflexivity.
  - reflexivity.
Qed.

Eval vm_compute in ("traces_validated_against_impl"%string, 65536 + 3 * ext_ps2_states).
Print Assumptions corr_ps2_words.
Print Assumptions corr_ps2_bits.
