(* Correspondence G_syn = G_ext for the layouts: all 30 layout objects (10 structs, AnyLayout by value and
   by reference) x 124 keys x 512 modifier records x 2 modes, and the five predicates on all 512 records.
   The per-layout sweeps are in Corr/Lay_<layout>.v. *)
From Coq Require Import NArith Bool List String.
From PK Require Import Base.Outcome Base.Finite Gen.Types Impl Syn.Lay Syn.Preds Ext.Lay ExtI.Lay Check.Lay.
From PK Require Corr.Lay_DVP104Key Corr.Lay_Dvorak104Key Corr.Lay_Us104Key Corr.Lay_Uk105Key Corr.Lay_Jis109Key Corr.Lay_Azerty Corr.Lay_Colemak Corr.Lay_De105Key Corr.Lay_No105Key Corr.Lay_FiSe105Key.
Import ListNotations.

Theorem corr_lay : forall l k m hc, lay_map syn_lay l k m hc = lay_map ext_lay l k m hc.
Proof.
  intros l k m hc. destruct l as [[]|[]|[]|[]|[]|[]|[]|[]|[]|[]].
  - apply dk_eqb_true. exact (forall_keys_sound _ Lay_DVP104Key.corr_lay_b k m hc).
  - apply dk_eqb_true. exact (forall_keys_sound _ Lay_Dvorak104Key.corr_lay_b k m hc).
  - apply dk_eqb_true. exact (forall_keys_sound _ Lay_Us104Key.corr_lay_b k m hc).
  - apply dk_eqb_true. exact (forall_keys_sound _ Lay_Uk105Key.corr_lay_b k m hc).
  - apply dk_eqb_true. exact (forall_keys_sound _ Lay_Jis109Key.corr_lay_b k m hc).
  - apply dk_eqb_true. exact (forall_keys_sound _ Lay_Azerty.corr_lay_b k m hc).
  - apply dk_eqb_true. exact (forall_keys_sound _ Lay_Colemak.corr_lay_b k m hc).
  - apply dk_eqb_true. exact (forall_keys_sound _ Lay_De105Key.corr_lay_b k m hc).
  - apply dk_eqb_true. exact (forall_keys_sound _ Lay_No105Key.corr_lay_b k m hc).
  - apply dk_eqb_true. exact (forall_keys_sound _ Lay_FiSe105Key.corr_lay_b k m hc).
Qed.
Theorem corr_any : forall l k m hc, any_map syn_lay l k m hc = any_map ext_lay l k m hc.
Proof.
  intros l k m hc. destruct l as [[]|[]|[]|[]|[]|[]|[]|[]|[]|[]].
  - apply dk_eqb_true. exact (forall_keys_sound _ Lay_DVP104Key.corr_any_b k m hc).
  - apply dk_eqb_true. exact (forall_keys_sound _ Lay_Dvorak104Key.corr_any_b k m hc).
  - apply dk_eqb_true. exact (forall_keys_sound _ Lay_Us104Key.corr_any_b k m hc).
  - apply dk_eqb_true. exact (forall_keys_sound _ Lay_Uk105Key.corr_any_b k m hc).
  - apply dk_eqb_true. exact (forall_keys_sound _ Lay_Jis109Key.corr_any_b k m hc).
  - apply dk_eqb_true. exact (forall_keys_sound _ Lay_Azerty.corr_any_b k m hc).
  - apply dk_eqb_true. exact (forall_keys_sound _ Lay_Colemak.corr_any_b k m hc).
  - apply dk_eqb_true. exact (forall_keys_sound _ Lay_De105Key.corr_any_b k m hc).
  - apply dk_eqb_true. exact (forall_keys_sound _ Lay_No105Key.corr_any_b k m hc).
  - apply dk_eqb_true. exact (forall_keys_sound _ Lay_FiSe105Key.corr_any_b k m hc).
Qed.
Theorem corr_ref : forall l k m hc, anyref_map syn_lay l k m hc = anyref_map ext_lay l k m hc.
Proof.
  intros l k m hc. destruct l as [[]|[]|[]|[]|[]|[]|[]|[]|[]|[]].
  - apply dk_eqb_true. exact (forall_keys_sound _ Lay_DVP104Key.corr_ref_b k m hc).
  - apply dk_eqb_true. exact (forall_keys_sound _ Lay_Dvorak104Key.corr_ref_b k m hc).
  - apply dk_eqb_true. exact (forall_keys_sound _ Lay_Us104Key.corr_ref_b k m hc).
  - apply dk_eqb_true. exact (forall_keys_sound _ Lay_Uk105Key.corr_ref_b k m hc).
  - apply dk_eqb_true. exact (forall_keys_sound _ Lay_Jis109Key.corr_ref_b k m hc).
  - apply dk_eqb_true. exact (forall_keys_sound _ Lay_Azerty.corr_ref_b k m hc).
  - apply dk_eqb_true. exact (forall_keys_sound _ Lay_Colemak.corr_ref_b k m hc).
  - apply dk_eqb_true. exact (forall_keys_sound _ Lay_De105Key.corr_ref_b k m hc).
  - apply dk_eqb_true. exact (forall_keys_sound _ Lay_No105Key.corr_ref_b k m hc).
  - apply dk_eqb_true. exact (forall_keys_sound _ Lay_FiSe105Key.corr_ref_b k m hc).
Qed.

Definition pred_eqb := outcome_eqb Bool.eqb.
Lemma corr_preds_b :
  forallb (fun m => pred_eqb (p_is_shifted syn_preds m) (p_is_shifted ext_preds m) &&
                    pred_eqb (p_is_ctrl syn_preds m) (p_is_ctrl ext_preds m) &&
                    pred_eqb (p_is_alt syn_preds m) (p_is_alt ext_preds m) &&
                    pred_eqb (p_is_altgr syn_preds m) (p_is_altgr ext_preds m) &&
                    pred_eqb (p_is_caps syn_preds m) (p_is_caps ext_preds m)) all_Modifiers = true.
Proof. vm_compute. reflexivity. Qed.

Eval vm_compute in ("traces_validated_against_impl"%string, (3 * 10 * 124 * 512 * 2 + 5 * 512)%N).
Print Assumptions corr_lay.
Print Assumptions corr_any.
Print Assumptions corr_ref.
