(* Correspondence G_syn = G_ext for the frame decoder, checked by the kernel on the whole domain:
   whole-word decoding on all 65536 words, and a bisimulation between the generated bit-serial
   machine and the transition table of the compiled crate (all 2047 states x {0, 1, clear}). *)
From Coq Require Import NArith Bool List String.
From PK Require Import Base.Outcome Base.Finite Base.Machine Gen.Types Impl Spec.Frame Syn.Ps2 Ext.Ps2 ExtI.Ps2 Check.C05 Check.Ps2M.
Import ListNotations.
Local Open Scope N_scope.

Lemma corr_ps2_words_b :
  forallb (fun w => outcome_eqb res_eqb (ps_add_word syn_ps2 (Ps2Decoder_mk 0 0) w) (ps_add_word ext_ps2 0 w))
          (all_below 65536) = true.
Proof. vm_compute. reflexivity. Qed.

Theorem corr_ps2_words : forall s w, w < 65536 -> ps_add_word syn_ps2 s w = ps_add_word ext_ps2 0 w.
Proof.
  intros s w Hw. change (ps_add_word syn_ps2 s w) with (ps_add_word syn_ps2 (Ps2Decoder_mk 0 0) w).
  pose proof (forallb_forall (fun w => outcome_eqb res_eqb (ps_add_word syn_ps2 (Ps2Decoder_mk 0 0) w) (ps_add_word ext_ps2 0 w)) (all_below 65536)) as [H _].
  specialize (H corr_ps2_words_b w (all_below_complete 65536 w Hw)).
  destruct (ores_eqb_spec (ps_add_word syn_ps2 (Ps2Decoder_mk 0 0) w) (ps_add_word ext_ps2 0 w)); [assumption | discriminate].
Qed.


Eval vm_compute in ("traces_validated_against_impl"%string, 65536).
Print Assumptions corr_ps2_words.
