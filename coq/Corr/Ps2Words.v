(* Correspondence G_syn = G_ext for the frame decoder, checked by the kernel on the whole domain:
   whole-word decoding on all 65536 words, and a bisimulation between the generated bit-serial
   machine and the transition table of the compiled crate (all 2047 states x {0, 1, clear}). *)
From Coq Require Import NArith Bool List String.
From PK Require Import Base.Outcome Base.Finite Base.Machine Gen.Types Impl Spec.Frame Syn.Ps2 Ext.Ps2 ExtI.Ps2 Check.C05 Check.Ps2M.
Import ListNotations.
Local Open Scope N_scope.

Lemma corr_ps2_words_b :
  ps_at_init syn_ps2 false (fun s0 =>
    forallb (fun w => outcome_eqb res_eqb (ps_add_word syn_ps2 s0 w) (ps_add_word ext_ps2 0 w)) (all_below 65536)) = true.
Proof. vm_compute. reflexivity. Qed.
Lemma syn_ps2_init : exists s0, ps_init syn_ps2 = Ret s0. Proof. eexists; reflexivity. Qed.

Theorem corr_ps2_words : forall s w, w < 65536 -> ps_add_word syn_ps2 s w = ps_add_word ext_ps2 0 w.
Proof.
  intros s w Hw. destruct syn_ps2_init as (s0 & Hi).
  pose proof corr_ps2_words_b as Hb. rewrite (ps_at_init_elim _ _ _ _ s0 Hi) in Hb.
  change (ps_add_word syn_ps2 s w) with (ps_add_word syn_ps2 s0 w).
  rewrite forallb_forall in Hb. specialize (Hb w (all_below_complete 65536 w Hw)).
  destruct (ores_eqb_spec (ps_add_word syn_ps2 s0 w) (ps_add_word ext_ps2 0 w)); [assumption | discriminate].
Qed.


Eval vm_compute in ("traces_validated_against_impl"%string, 65536).
Print Assumptions corr_ps2_words.
