(* Correspondence G_syn = G_ext for layout Us104Key (struct, AnyLayout by value, AnyLayout by reference):
   124 keys x 512 modifier records x 2 modes each. *)
From Coq Require Import NArith Bool List.
From PK Require Import Base.Outcome Base.Finite Gen.Types Impl Syn.Lay Ext.Lay ExtI.Lay Check.Lay.
Notation l0 := (AnyLayout_Us104Key Us104Key_mk).
Lemma corr_lay_b : forall_keys (fun k m hc => dk_eqb (lay_map syn_lay l0 k m hc) (lay_map ext_lay l0 k m hc)) = true.
Proof. vm_compute. reflexivity. Qed.
Lemma corr_any_b : forall_keys (fun k m hc => dk_eqb (any_map syn_lay l0 k m hc) (any_map ext_lay l0 k m hc)) = true.
Proof. vm_compute. reflexivity. Qed.
Lemma corr_ref_b : forall_keys (fun k m hc => dk_eqb (anyref_map syn_lay l0 k m hc) (anyref_map ext_lay l0 k m hc)) = true.
Proof. vm_compute. reflexivity. Qed.
