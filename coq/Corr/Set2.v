(* Correspondence G_syn = G_ext for scancode set 2: the generated decoder and the transition table of
   the compiled crate produce the same results on every byte stream (bisimulation over all states of
   the table x 256 bytes, the generated model's states rebuilt along the table's BFS tree). *)
From Coq Require Import NArith Bool List String.
From PK Require Import Base.Outcome Base.Finite Base.Machine Gen.Types Impl Syn.Set2 Ext.Set2 ExtI.Scan Spec.ScanRef Spec.ScanAuto Check.Scan.
Import ListNotations.
Local Open Scope N_scope.

Definition syn_of_ext2_tbl : list (outcome (sc_st syn_set2)) :=
  Eval vm_compute in
    build_table (scan_machine syn_set2) (sc_init syn_set2)
                (map (fun e => (N.to_nat (fst e), snd e)) (tl ext_set2_parents)).
Definition syn_of_ext2 (s : N) : outcome (sc_st syn_set2) := nth (N.to_nat s) syn_of_ext2_tbl Panic.

Lemma corr_set2_closed :
  closedb (scan_machine syn_set2) (scan_machine ext_set2) (sc_eqb syn_set2) scres_eqb all_bytes
          (fun s => s <? ext_set2_states) (all_below ext_set2_states) syn_of_ext2 (fun _ _ => false) = true.
Proof. vm_compute. reflexivity. Qed.

Theorem corr_set2 : forall bs, Forall byte bs ->
  forall s0, sc_init syn_set2 = Ret s0 ->
  outs (scan_machine syn_set2) s0 bs = outs (scan_machine ext_set2) 0 bs
  /\ outs (scan_machine syn_set2) s0 bs <> Panic.
Proof.
  intros bs Hb s0 Hi.
  apply (@bisim_outs _ _ (scan_machine syn_set2) (scan_machine ext_set2) (sc_eqb syn_set2) (sc_eqb_ok syn_set2) scres_eqb scres_eqb_ok all_bytes
           (fun s => s <? ext_set2_states) (all_below ext_set2_states)
           (fun s H => all_below_complete _ s (proj1 (N.ltb_lt _ _) H)) syn_of_ext2 (fun _ _ => false) (fun _ _ => eq_refl) corr_set2_closed).
  - apply bytes_in. exact Hb.
  - reflexivity.
  - unfold syn_of_ext2. simpl. exact Hi.
Qed.
Eval vm_compute in ("traces_validated_against_impl"%string, 256 * ext_set2_states).
Print Assumptions corr_set2.
