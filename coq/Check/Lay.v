(* Shared machinery for the layout properties: sweeping all (layout, key, modifiers, mode) cells. *)
From Coq Require Import NArith Bool List Lia.
From PK Require Import Base.Outcome Base.Finite Gen.Types Impl Spec.Known Enc.
Import ListNotations.
Local Open Scope N_scope.

Definition cell : Type := AnyLayout * KeyCode * Modifiers * HandleControl.

Definition forall_cells (p : AnyLayout -> KeyCode -> Modifiers -> HandleControl -> bool) : bool :=
  forallb (fun l => forallb (fun k => forallb (fun m => forallb (fun hc => p l k m hc) all_HandleControl)
                                               all_Modifiers) all_KeyCode) all_AnyLayout.
Lemma forall_cells_sound : forall p, forall_cells p = true -> forall l k m hc, p l k m hc = true.
Proof.
  intros p H l k m hc. unfold forall_cells in H.
  pose proof (forallb_complete _ _ all_AnyLayout_complete H l) as H1. cbv beta in H1.
  pose proof (forallb_complete _ _ all_KeyCode_complete H1 k) as H2. cbv beta in H2.
  pose proof (forallb_complete _ _ all_Modifiers_complete H2 m) as H3. cbv beta in H3.
  exact (forallb_complete _ _ all_HandleControl_complete H3 hc).
Qed.

(* one layout at a time (lets the sweeps of the ten layouts compile in parallel) *)
Definition forall_keys (p : KeyCode -> Modifiers -> HandleControl -> bool) : bool :=
  forallb (fun k => forallb (fun m => forallb (fun hc => p k m hc) all_HandleControl) all_Modifiers) all_KeyCode.
Lemma forall_keys_sound : forall p, forall_keys p = true -> forall k m hc, p k m hc = true.
Proof.
  intros p H k m hc. unfold forall_keys in H.
  pose proof (forallb_complete _ _ all_KeyCode_complete H k) as H2. cbv beta in H2.
  pose proof (forallb_complete _ _ all_Modifiers_complete H2 m) as H3. cbv beta in H3.
  exact (forallb_complete _ _ all_HandleControl_complete H3 hc).
Qed.

(* the cells violating p, for the search for a failing input *)
Definition cells_where (bad : AnyLayout -> KeyCode -> Modifiers -> HandleControl -> bool) : list cell :=
  flat_map (fun l => flat_map (fun k => flat_map (fun m => flat_map (fun hc =>
    if bad l k m hc then [(l, k, m, hc)] else []) all_HandleControl) all_Modifiers) all_KeyCode) all_AnyLayout.

(* one representative cell per (layout, key) *)
Definition same_lk (c d : cell) : bool :=
  let '(l, k, _, _) := c in let '(l', k', _, _) := d in AnyLayout_eqb l l' && KeyCode_eqb k k'.
Definition per_key (cs : list cell) : list cell :=
  fold_left (fun acc c => if existsb (same_lk c) acc then acc else acc ++ [c]) cs [].

Definition enc_cell (c : cell) : list N :=
  let '(l, k, m, hc) := c in [AnyLayout_idx l; KeyCode_tag k; bits_of_mods m; HandleControl_tag hc].

Definition dk_eqb := outcome_eqb DecodedKey_eqb.
Lemma dk_eqb_true : forall a b, dk_eqb a b = true -> a = b.
Proof. intros a b H. unfold dk_eqb in H. beq H. exact H. Qed.
Lemma dk_eqb_refl : forall a, dk_eqb a a = true.
Proof.
  intros a. unfold dk_eqb. destruct (outcome_eqb_spec DecodedKey_eqb DecodedKey_eqb_spec a a) as [_|N]; [reflexivity|].
  exfalso. apply N. reflexivity.
Qed.

(* known findings are listed per (layout, key): [layout index; key tag] *)
Definition known_in (kn : list (list N)) (l : AnyLayout) (k : KeyCode) : bool :=
  existsb (list_eqb N.eqb [AnyLayout_idx l; KeyCode_tag k]) kn.

(* modifier records *)
Definition shift_held (m : Modifiers) : bool := Modifiers_lshift m || Modifiers_rshift m.
Definition ctrl_held (m : Modifiers) : bool := Modifiers_lctrl m || Modifiers_rctrl m.
Definition altgr_held (m : Modifiers) : bool := Modifiers_ralt m || (Modifiers_lalt m && ctrl_held m).
Definition alt_held (m : Modifiers) : bool := Modifiers_lalt m || Modifiers_ralt m.

Definition m_none : Modifiers := Modifiers_mk false false false false true false false false false.
Definition m_shift : Modifiers := Modifiers_mk true false false false true false false false false.
Definition m_altgr : Modifiers := Modifiers_mk false false false false true false false true false.

Definition HMap := HandleControl_MapLettersToUnicode.
Definition HIgn := HandleControl_Ignore.

Definition is_numpad (k : KeyCode) : bool :=
  match k with
  | KeyCode_Numpad0 | KeyCode_Numpad1 | KeyCode_Numpad2 | KeyCode_Numpad3 | KeyCode_Numpad4 | KeyCode_Numpad5
  | KeyCode_Numpad6 | KeyCode_Numpad7 | KeyCode_Numpad8 | KeyCode_Numpad9 | KeyCode_NumpadPeriod
  | KeyCode_NumpadDivide | KeyCode_NumpadMultiply | KeyCode_NumpadSubtract | KeyCode_NumpadAdd
  | KeyCode_NumpadEnter | KeyCode_NumpadLock => true
  | _ => false
  end.
