(* Event decoder: C04 (modifier state = history) and C14 (what a key event yields), for an EvImpl
   (recording layout) and, symbolically, for the generated generic code with an arbitrary layout. *)
From Coq Require Import NArith Arith Bool List Lia.
From PK Require Import Base.Outcome Base.Finite Gen.Types Impl Spec.Mods.
Import ListNotations.

(* ---------- on an EvImpl (tables of the compiled crate, or the generated code instantiated) ---------- *)

Definition spec_ev_step (s : ev_state) (ev : KeyEvent) : ev_state * ev_res :=
  ((mods_step (fst s) ev, snd s),
   match event_result ERRaw (fun k => ERCons k (fst s) (snd s)) (fst s) ev with
   | None => ERNone
   | Some r => r
   end).

Definition ev_res_eqb (a b : ev_res) : bool :=
  match a, b with
  | ERNone, ERNone => true
  | ERRaw k, ERRaw k' => KeyCode_eqb k k'
  | ERCons k m hc, ERCons k' m' hc' => KeyCode_eqb k k' && Modifiers_eqb m m' && HandleControl_eqb hc hc'
  | EROther c, EROther c' => N.eqb c c'
  | _, _ => false
  end.
Lemma ev_res_eqb_spec : forall a b, reflect (a = b) (ev_res_eqb a b).
Proof.
  intros [|k|k m hc|c] [|k'|k' m' hc'|c']; simpl; try (constructor; congruence).
  - destruct (KeyCode_eqb_spec k k'); constructor; congruence.
  - destruct (KeyCode_eqb_spec k k'); simpl; [|constructor; congruence].
    destruct (Modifiers_eqb_spec m m'); simpl; [|constructor; congruence].
    destruct (HandleControl_eqb_spec hc hc'); constructor; congruence.
  - destruct (N.eqb_spec c c'); constructor; congruence.
Qed.
#[global] Instance ev_res_eqb_ok : EqbSpec ev_res_eqb := ev_res_eqb_spec.
Lemma ev_state_eqb_spec : forall a b, reflect (a = b) (ev_state_eqb a b).
Proof.
  intros [m hc] [m' hc']; unfold ev_state_eqb; simpl.
  destruct (Modifiers_eqb_spec m m'); simpl; [|constructor; congruence].
  destruct (HandleControl_eqb_spec hc hc'); constructor; congruence.
Qed.
#[global] Instance ev_state_eqb_ok : EqbSpec ev_state_eqb := ev_state_eqb_spec.

Definition step_res_eqb := outcome_eqb (prod_eqb ev_state_eqb ev_res_eqb).

(* C04 looks at the new STATE only (what the step returns is C14's business) *)
Definition bad_step (I : EvImpl) (x : ev_state * KeyEvent) : bool :=
  ev_reach I (fst x) &&
  negb (outcome_eqb ev_state_eqb (omap fst (ev_step I (fst x) (snd x))) (Ret (fst (spec_ev_step (fst x) (snd x))))
        && ev_reach I (fst (spec_ev_step (fst x) (snd x)))).
Definition bad_mode (I : EvImpl) (x : ev_state * HandleControl) : bool :=
  ev_reach I (fst x) &&
  negb (outcome_eqb ev_state_eqb (ev_setmode I (fst x) (snd x)) (Ret (fst (fst x), snd x))
        && ev_reach I (fst (fst x), snd x)).
Definition bad_init (I : EvImpl) (hc : HandleControl) : bool :=
  negb (outcome_eqb ev_state_eqb (ev_init I hc) (Ret (initial_mods, hc)) && ev_reach I (initial_mods, hc)).

Definition all_steps : list (ev_state * KeyEvent) := list_prod all_ev_state all_KeyEvent.
Definition all_modes : list (ev_state * HandleControl) := list_prod all_ev_state all_HandleControl.

Notation cex_step I := (filter (bad_step I) all_steps).
Notation cex_mode I := (filter (bad_mode I) all_modes).
Notation cex_init I := (filter (bad_init I) all_HandleControl).

Inductive eop : Type := EEvent (ev : KeyEvent) | EMode (hc : HandleControl).

Fixpoint impl_run (I : EvImpl) (s : ev_state) (ops : list eop) : outcome (ev_state * list ev_res) :=
  match ops with
  | [] => Ret (s, [])
  | EEvent ev :: rest =>
      match ev_step I s ev with
      | Ret (s', r) => match impl_run I s' rest with Ret (s'', rs) => Ret (s'', r :: rs) | Panic => Panic end
      | Panic => Panic
      end
  | EMode hc :: rest =>
      match ev_setmode I s hc with
      | Ret s' => impl_run I s' rest
      | Panic => Panic
      end
  end.

Fixpoint spec_run (s : ev_state) (ops : list eop) : ev_state * list ev_res :=
  match ops with
  | [] => (s, [])
  | EEvent ev :: rest => let '(s', r) := spec_ev_step s ev in let '(s'', rs) := spec_run s' rest in (s'', r :: rs)
  | EMode hc :: rest => spec_run (fst s, hc) rest
  end.

Definition eevents (ops : list eop) : list KeyEvent :=
  flat_map (fun op => match op with EEvent ev => [ev] | EMode _ => [] end) ops.
Fixpoint last_mode (hc : HandleControl) (ops : list eop) : HandleControl :=
  match ops with [] => hc | EEvent _ :: rest => last_mode hc rest | EMode hc' :: rest => last_mode hc' rest end.

Lemma spec_run_state : forall ops m hc,
  fst (spec_run (m, hc) ops) = (fold_left mods_step (eevents ops) m, last_mode hc ops).
Proof.
  induction ops as [|[ev|hc'] ops IH]; intros m hc; cbn [spec_run eevents last_mode flat_map app fold_left].
  - reflexivity.
  - unfold spec_ev_step at 1. cbn [fst snd].
    specialize (IH (mods_step m ev) hc). destruct (spec_run (mods_step m ev, hc) ops) as [s'' rs]. cbn [fst] in *. exact IH.
  - cbn [fst]. apply IH.
Qed.

Section Sound.
  Variable I : EvImpl.
  Hypothesis Hs : cex_step I = [].
  Hypothesis Hm : cex_mode I = [].
  Hypothesis Hi : cex_init I = [].

  Lemma step_ok : forall s ev, ev_reach I s = true ->
    (exists r, ev_step I s ev = Ret (fst (spec_ev_step s ev), r)) /\ ev_reach I (fst (spec_ev_step s ev)) = true.
  Proof.
    intros s ev Hr.
    assert (Hin : In (s, ev) all_steps) by (apply in_prod; [apply all_ev_state_complete | apply all_KeyEvent_complete]).
    pose proof (filter_nil_forall _ _ Hs (s, ev) Hin) as H. unfold bad_step in H. cbn [fst snd] in H.
    rewrite Hr in H. cbn [andb] in H. apply negb_false_iff in H. apply andb_prop in H as [H1 H2].
    beq H1. split; [|exact H2]. destruct (ev_step I s ev) as [[s' r]|]; [|discriminate].
    cbn [omap fst] in H1. injection H1 as ->. eauto.
  Qed.
  Lemma mode_ok : forall s hc, ev_reach I s = true ->
    ev_setmode I s hc = Ret (fst s, hc) /\ ev_reach I (fst s, hc) = true.
  Proof.
    intros s hc Hr.
    assert (Hin : In (s, hc) all_modes) by (apply in_prod; [apply all_ev_state_complete | apply all_HandleControl_complete]).
    pose proof (filter_nil_forall _ _ Hm (s, hc) Hin) as H. unfold bad_mode in H. cbn [fst snd] in H.
    rewrite Hr in H. cbn [andb] in H. apply negb_false_iff in H. apply andb_prop in H as [H1 H2].
    beq H1. auto.
  Qed.
  Lemma init_ok : forall hc, ev_init I hc = Ret (initial_mods, hc) /\ ev_reach I (initial_mods, hc) = true.
  Proof.
    intros hc. pose proof (filter_nil_forall _ _ Hi hc (all_HandleControl_complete hc)) as H.
    unfold bad_init in H. apply negb_false_iff in H. apply andb_prop in H as [H1 H2]. beq H1. auto.
  Qed.

  (* on the implementation every run goes through the abstract run's states *)
  Theorem ev_run_sound : forall ops s, ev_reach I s = true ->
    exists rs, impl_run I s ops = Ret (fst (spec_run s ops), rs).
  Proof.
    induction ops as [|[ev|hc] ops IH]; intros s Hr; cbn [impl_run spec_run].
    - eauto.
    - destruct (step_ok s ev Hr) as [[r E] Hr']. rewrite E.
      destruct (spec_ev_step s ev) as [s' r0]. cbn [fst] in *. destruct (IH s' Hr') as [rs R]. rewrite R.
      destruct (spec_run s' ops). cbn [fst]. eauto.
    - destruct (mode_ok s hc Hr) as [E Hr']. rewrite E. apply IH. exact Hr'.
  Qed.

  (* C04: after any sequence of key events and mode changes from a fresh decoder, the modifier record
     is the declarative reading of the event history, and the mode is the last one set *)
  Theorem C04_sound : forall hc0 ops,
    exists s0, ev_init I hc0 = Ret s0 /\
    exists rs, impl_run I s0 ops = Ret ((after (eevents ops), last_mode hc0 ops), rs).
  Proof.
    intros hc0 ops. destruct (init_ok hc0) as [E Hr]. exists (initial_mods, hc0). split; [exact E|].
    destruct (ev_run_sound ops _ Hr) as [rs R]. rewrite R. rewrite (spec_run_state ops initial_mods hc0), history. eauto.
  Qed.
End Sound.

(* ---------- C14 alone: what each operation RETURNS, whatever the modifier bookkeeping does ---------- *)

Definition bad_res (I : EvImpl) (x : ev_state * KeyEvent) : bool :=
  ev_reach I (fst x) &&
  negb (match ev_step I (fst x) (snd x) with
        | Ret (s', r) => ev_res_eqb r (snd (spec_ev_step (fst x) (snd x))) && ev_reach I s'
        | Panic => false
        end).
Definition bad_setmode (I : EvImpl) (x : ev_state * HandleControl) : bool :=
  ev_reach I (fst x) &&
  negb (match ev_setmode I (fst x) (snd x) with
        | Ret s' => HandleControl_eqb (snd s') (snd x) && ev_reach I s'
        | Panic => false
        end).
Definition bad_init14 (I : EvImpl) (hc : HandleControl) : bool :=
  negb (match ev_init I hc with Ret s => HandleControl_eqb (snd s) hc && ev_reach I s | Panic => false end).
Notation cex_res I := (filter (bad_res I) all_steps).
Notation cex_setmode I := (filter (bad_setmode I) all_modes).
Notation cex_init14 I := (filter (bad_init14 I) all_HandleControl).

(* along a run: every event returns what the abstract decoder returns for the state the implementation
   is actually in (one decoded key per press, the installed layout consulted with exactly the current key,
   modifiers and mode; nothing for releases and one-shots), and a mode change is in force from the next key *)
Fixpoint results_ok (I : EvImpl) (s : ev_state) (ops : list eop) : Prop :=
  match ops with
  | [] => True
  | EEvent ev :: rest =>
      exists s' r, ev_step I s ev = Ret (s', r) /\ r = snd (spec_ev_step s ev) /\ results_ok I s' rest
  | EMode hc :: rest =>
      exists s', ev_setmode I s hc = Ret s' /\ snd s' = hc /\ results_ok I s' rest
  end.

Section Sound14.
  Variable I : EvImpl.
  Hypothesis Hr : cex_res I = [].
  Hypothesis Hm : cex_setmode I = [].
  Hypothesis Hi : cex_init14 I = [].

  Theorem C14_sound : forall ops s, ev_reach I s = true -> results_ok I s ops.
  Proof.
    induction ops as [|[ev|hc] ops IH]; intros s Hs; cbn [results_ok]; [exact Logic.I| |].
    - assert (Hin : In (s, ev) all_steps) by (apply in_prod; [apply all_ev_state_complete | apply all_KeyEvent_complete]).
      pose proof (filter_nil_forall _ _ Hr (s, ev) Hin) as H. unfold bad_res in H. cbn [fst snd] in H.
      rewrite Hs in H. cbn [andb] in H. apply negb_false_iff in H.
      destruct (ev_step I s ev) as [[s' r]|]; [|discriminate]. apply andb_prop in H as [H1 H2]. beq H1.
      exists s', r. auto.
    - assert (Hin : In (s, hc) all_modes) by (apply in_prod; [apply all_ev_state_complete | apply all_HandleControl_complete]).
      pose proof (filter_nil_forall _ _ Hm (s, hc) Hin) as H. unfold bad_setmode in H. cbn [fst snd] in H.
      rewrite Hs in H. cbn [andb] in H. apply negb_false_iff in H.
      destruct (ev_setmode I s hc) as [s'|]; [|discriminate]. apply andb_prop in H as [H1 H2]. beq H1.
      exists s'. auto.
  Qed.

  Theorem C14_from_new : forall hc ops, exists s0, ev_init I hc = Ret s0 /\ snd s0 = hc /\ results_ok I s0 ops.
  Proof.
    intros hc ops. pose proof (filter_nil_forall _ _ Hi hc (all_HandleControl_complete hc)) as H.
    unfold bad_init14 in H. apply negb_false_iff in H. destruct (ev_init I hc) as [s0|]; [|discriminate].
    apply andb_prop in H as [H1 H2]. beq H1. exists s0. split; [reflexivity|]. split; [exact H1|].
    apply C14_sound. exact H2.
  Qed.
End Sound14.

