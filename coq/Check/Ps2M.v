(* The bit-serial frame decoder of an implementation as a machine over {bit 0, bit 1, clear}. *)
From Coq Require Import NArith Bool List.
From PK Require Import Base.Outcome Base.Finite Base.Machine Gen.Types Impl Spec.Frame.
Import ListNotations.
Local Open Scope N_scope.

(* the two bit-serial machines *)
Definition ps2_machine (I : Ps2Impl) : machine bit_op ps_result := {|
  m_st := ps_st I;
  m_step := fun s op =>
    match op with
    | Bit b => ps_add_bit I s b
    | Clear => omap (fun s' => (s', Ok None)) (ps_clear I s)
    end
|}.

Definition op_of_code (c : N) : bit_op := match c with 0 => Bit false | 1 => Bit true | _ => Clear end.
Definition all_ops : list bit_op := [Bit false; Bit true; Clear].
Lemma all_ops_complete : forall op, In op all_ops.
Proof. intros [[]|]; simpl; auto. Qed.

Definition psres_eqb : ps_result -> ps_result -> bool := Result_eqb (option_eqb N.eqb) Error_eqb.
#[global] Instance psres_eqb_ok : EqbSpec psres_eqb.
Proof. unfold psres_eqb. typeclasses eauto. Qed.


(* evaluate something at the implementation's own initial state (whatever its representation is) *)
Definition ps_at_init {A : Type} (I : Ps2Impl) (d : A) (k : ps_st I -> A) : A :=
  match ps_init I with Ret s => k s | Panic => d end.
Lemma ps_at_init_elim : forall (A : Type) (I : Ps2Impl) (d : A) (k : ps_st I -> A) s0,
  ps_init I = Ret s0 -> ps_at_init I d k = k s0.
Proof. intros A I d k s0 H. unfold ps_at_init. rewrite H. reflexivity. Qed.
