(* C20 - constructors usable in const/static context; all stages Send + Sync.
   What Coq carries is a model of the DECLARATIONS (Gen/Sigs.v, regenerated from the source): which
   functions are `const fn` and what they call, which fields each type has, manual auto-trait impls.
   The deciding judge is rustc on the generated probe crate (see DESIGN.md); this file states the
   declaration-level facts that must agree with it. *)
From Coq Require Import NArith Bool List String.
From PK Require Import Gen.Sigs.
Import ListNotations.
Local Open Scope string_scope.

(* the fourteen functions the property names *)
Definition required_const : list string :=
  ["Keyboard::new"; "Keyboard::get_modifiers"; "Keyboard::get_ctrl_handling"; "Ps2Decoder::new";
   "EventDecoder::new"; "EventDecoder::get_ctrl_handling"; "KeyEvent::new";
   "Modifiers::is_shifted"; "Modifiers::is_ctrl"; "Modifiers::is_alt"; "Modifiers::is_altgr"; "Modifiers::is_caps";
   "ScancodeSet1::new"; "ScancodeSet2::new"].

Definition sig : Type := string * string * bool * bool * list string.
Definition sig_rust (s : sig) : string := fst (fst (fst (fst s))).
Definition sig_coq (s : sig) : string := snd (fst (fst (fst s))).
Definition sig_const (s : sig) : bool := snd (fst (fst s)).
Definition sig_callees (s : sig) : list string := snd s.

Definition by_rust (n : string) : option sig := find (fun s => String.eqb (sig_rust s) n) fn_sigs.
Definition by_coq (n : string) : option sig := find (fun s => String.eqb (sig_coq s) n) fn_sigs.

(* declared const, and everything it calls (transitively) is const *)
Fixpoint const_ok (fuel : nat) (coqname : string) : bool :=
  match fuel with
  | O => false
  | S f =>
      match by_coq coqname with
      | Some s => sig_const s && forallb (const_ok f) (sig_callees s)
      | None => false
      end
  end.
Definition not_const : list string :=
  filter (fun n => negb (match by_rust n with Some s => const_ok 8 (sig_coq s) | None => false end)) required_const.

(* structural auto-trait rule: scalars, references to auto types, aggregates of auto fields; a type
   parameter is assumed auto (that is the statement: auto L -> auto S -> auto (Keyboard L S)) *)
Definition type_sig : Type := string * list string * list tdesc * bool.
Definition ts_name (t : type_sig) : string := fst (fst (fst t)).
Definition ts_fields (t : type_sig) : list tdesc := snd (fst t).
Fixpoint auto_t (fuel : nat) (t : tdesc) : bool :=
  match fuel with
  | O => false
  | S f =>
      match t with
      | TScalar => true
      | TParam _ => true
      | TRef t' => auto_t f t'
      | TAdt n args =>
          forallb (auto_t f) args &&
          (if String.eqb n "Option" || String.eqb n "Result" || String.eqb n "tuple" then true
           else match find (fun ts => String.eqb (ts_name ts) n) type_sigs with
                | Some ts => forallb (auto_t f) (ts_fields ts)
                | None => false
                end)
      end
  end.
Definition not_auto : list string :=
  map ts_name (filter (fun ts => negb (forallb (auto_t 8) (ts_fields ts))) type_sigs).
