(* C16 - keys without a character always decode to their own raw key *)
From Coq Require Import NArith Bool List.
From PK Require Import Base.Outcome Base.Finite Gen.Types Impl Check.Lay.
Import ListNotations.

(* the 52 keys that carry no character on any keyboard *)
Definition raw52 : list KeyCode :=
  [KeyCode_F1; KeyCode_F2; KeyCode_F3; KeyCode_F4; KeyCode_F5; KeyCode_F6; KeyCode_F7; KeyCode_F8; KeyCode_F9;
   KeyCode_F10; KeyCode_F11; KeyCode_F12; KeyCode_PrintScreen; KeyCode_SysRq; KeyCode_ScrollLock; KeyCode_PauseBreak;
   KeyCode_Insert; KeyCode_Home; KeyCode_PageUp; KeyCode_End; KeyCode_PageDown;
   KeyCode_ArrowUp; KeyCode_ArrowLeft; KeyCode_ArrowDown; KeyCode_ArrowRight;
   KeyCode_LShift; KeyCode_RShift; KeyCode_LControl; KeyCode_RControl; KeyCode_LAlt; KeyCode_RAltGr;
   KeyCode_CapsLock; KeyCode_NumpadLock; KeyCode_RControl2;
   KeyCode_LWin; KeyCode_RWin; KeyCode_Apps;
   KeyCode_PrevTrack; KeyCode_NextTrack; KeyCode_Mute; KeyCode_Calculator; KeyCode_Play; KeyCode_Stop;
   KeyCode_VolumeDown; KeyCode_VolumeUp; KeyCode_WWWHome;
   KeyCode_PowerOnTestOk; KeyCode_TooManyKeys; KeyCode_RAlt2;
   KeyCode_Oem9; KeyCode_Oem10; KeyCode_Oem11].
Definition is_raw52 (k : KeyCode) : bool := existsb (KeyCode_eqb k) raw52.

(* navigation alias of a numpad key when NumLock is off *)
Definition nav_alias (k : KeyCode) : option KeyCode :=
  match k with
  | KeyCode_Numpad0 => Some KeyCode_Insert | KeyCode_Numpad1 => Some KeyCode_End
  | KeyCode_Numpad2 => Some KeyCode_ArrowDown | KeyCode_Numpad3 => Some KeyCode_PageDown
  | KeyCode_Numpad4 => Some KeyCode_ArrowLeft | KeyCode_Numpad6 => Some KeyCode_ArrowRight
  | KeyCode_Numpad7 => Some KeyCode_Home | KeyCode_Numpad8 => Some KeyCode_ArrowUp
  | KeyCode_Numpad9 => Some KeyCode_PageUp
  | _ => None
  end.

Definition raw_ok (k : KeyCode) (m : Modifiers) (r : outcome DecodedKey) : bool :=
  (* a key of raw52 must give its own raw code *)
  (negb (is_raw52 k) || dk_eqb r (Ret (DecodedKey_RawKey k))) &&
  (* any raw result is the key itself, or the navigation alias of a numpad key while NumLock is off *)
  match r with
  | Ret (DecodedKey_RawKey k') =>
      KeyCode_eqb k' k ||
      (negb (Modifiers_numlock m) && match nav_alias k with Some a => KeyCode_eqb k' a | None => false end)
  | _ => true
  end.

Definition bad_C16 (I : LayImpl) (l : AnyLayout) (k : KeyCode) (m : Modifiers) (hc : HandleControl) : bool :=
  negb (raw_ok k m (lay_map I l k m hc) && raw_ok k m (any_map I l k m hc) && raw_ok k m (anyref_map I l k m hc)).
Notation cex_C16 I := (cells_where (bad_C16 I)).
Notation ok_C16 I := (forall_cells (fun l k m hc => negb (bad_C16 I l k m hc))).

Theorem C16_sound (I : LayImpl) : ok_C16 I = true ->
  forall (F : lay_fn), (F = lay_map I \/ F = any_map I \/ F = anyref_map I) ->
  forall l k m hc,
    (In k raw52 -> F l k m hc = Ret (DecodedKey_RawKey k)) /\
    (forall k', F l k m hc = Ret (DecodedKey_RawKey k') ->
       k' = k \/ (Modifiers_numlock m = false /\ nav_alias k = Some k')).
Proof.
  intros H F HF l k m hc. pose proof (forall_cells_sound _ H l k m hc) as H1. cbv beta in H1.
  unfold bad_C16 in H1. rewrite negb_involutive in H1. apply andb_prop in H1 as [H1 H3]. apply andb_prop in H1 as [H1 H2].
  assert (HR : raw_ok k m (F l k m hc) = true) by (destruct HF as [->|[->| ->]]; assumption).
  clear H1 H2 H3. unfold raw_ok in HR. apply andb_prop in HR as [A B]. split.
  - intros Hin. apply orb_prop in A as [A|A]; [|apply dk_eqb_true; exact A].
    exfalso. apply negb_true_iff in A. unfold is_raw52 in A.
    assert (existsb (KeyCode_eqb k) raw52 = true) by (apply existsb_exists; exists k; split; [exact Hin | apply (eqb_refl KeyCode_eqb)]).
    congruence.
  - intros k' Hk. rewrite Hk in B. apply orb_prop in B as [B|B].
    + beq B. left. exact B.
    + apply andb_prop in B as [B1 B2]. right. apply negb_true_iff in B1. split; [exact B1|].
      destruct (nav_alias k) as [a|]; [|discriminate]. beq B2. congruence.
Qed.
