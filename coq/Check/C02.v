(* C02 - Set 1 byte streams decode to exactly the standard key events *)
From Coq Require Import NArith Bool List Lia.
From PK Require Import Base.Outcome Base.Finite Base.Machine Gen.Types Impl Spec.ScanRef Spec.ScanAuto Spec.Known Check.Scan.
Import ListNotations.
Local Open Scope N_scope.

(* known findings: cells (context, byte) whose output is excepted; KNOWN_FINDINGS.txt lists them as the
   byte stream that reaches the cell from the initial state (prefix byte if any, then the byte) *)
Definition exc_C02 (p : ctx1) (b : N) : bool := existsb (list_eqb N.eqb (path1 p ++ [b])) known_C02.

Notation closed_C02 I :=
  (closedb (scan_machine I) auto1 (sc_eqb I) scres_eqb all_bytes (fun _ => true) all_prefix
           (fun x => sc_after I (path1 x)) exc_C02).
Notation open_C02 I :=
  (open_cells (scan_machine I) auto1 (sc_eqb I) scres_eqb all_bytes (fun _ => true) all_prefix
              (fun x => sc_after I (path1 x)) exc_C02).
Notation explain_C02 I :=
  (explain_cell (scan_machine I) auto1 (sc_eqb I) scres_eqb all_bytes (fun x => sc_after I (path1 x)) exc_C02 4).

Notation open_all_C02 I :=
  (open_cells (scan_machine I) auto1 (sc_eqb I) scres_eqb all_bytes (fun _ => true) all_prefix
              (fun x => sc_after I (path1 x)) (fun _ _ => false)).
Notation explain_all_C02 I :=
  (explain_cell (scan_machine I) auto1 (sc_eqb I) scres_eqb all_bytes (fun x => sc_after I (path1 x)) (fun _ _ => false) 4).

Definition focus1 (c : ctx1 * N) : list N :=
  [0xE0; 0xE1; snd c; (snd c + 128) mod 256] ++ path1 (fst c) ++ [0x1E; 0x2A; 0xAA; 0x1D; 0x9D; 0xFA].
Notation explain_focus_C02 I c :=
  (explain_cell (scan_machine I) auto1 (sc_eqb I) scres_eqb (focus1 c) (fun x => sc_after I (path1 x)) (fun _ _ => false) 5 c).
Notation explain_wide_C02 I c :=
  (explain_cell (scan_machine I) auto1 (sc_eqb I) scres_eqb all_bytes (fun x => sc_after I (path1 x)) (fun _ _ => false) 2 c).

(* At every position of every byte stream the decoder returns what the reference automaton returns,
   unless the cell (context, byte) at that position is a listed known finding; it never panics and
   stays in step with the automaton's context (so later bytes are unaffected by an excepted cell). *)
Theorem C02_sound (I : ScanImpl) (s0 : sc_st I) :
  sc_init I = Ret s0 ->
  closed_C02 I = true ->
  forall bs, Forall byte bs ->
    agree (scan_machine I) auto1 exc_C02 P0 s0 bs.
Proof.
  intros Hi Hc bs Hb.
  apply (@bisim_exc _ _ (scan_machine I) auto1 (sc_eqb I) (sc_eqb_ok I) scres_eqb scres_eqb_ok all_bytes (fun _ => true) all_prefix
           (fun s _ => all_prefix_complete s) (fun x => sc_after I (path1 x)) exc_C02 Hc).
  - apply bytes_in. exact Hb.
  - reflexivity.
  - unfold sc_after. rewrite Hi. reflexivity.
Qed.

(* the known cells really are wrong (so that a finding that disappears is noticed in the evidence) *)
Definition known_cells_C02 (I : ScanImpl) : list (ctx1 * N) :=
  filter (fun c => exc_C02 (fst c) (snd c))
    (open_cells (scan_machine I) auto1 (sc_eqb I) scres_eqb all_bytes (fun _ => true) all_prefix
                (fun x => sc_after I (path1 x)) (fun _ _ => false)).

Definition seq1 (p : prefix) (b : N) : list N := path1 p ++ [b].
Lemma seq1_run_b :
  forallb (fun p => forallb (fun c =>
     implb (negb (prefix_eqb p P0) || negb ((c =? 0xE0) || (c =? 0xE1)))
           (outcome_eqb (prod_eqb prefix_eqb (list_eqb scres_eqb))
              (run auto1 P0 (seq1 p c))
              (Ret (P0, repeat (Ok None) (length (path1 p)) ++ [code1 p c]))))
     all_bytes) all_prefix = true.
Proof. vm_compute. reflexivity. Qed.
