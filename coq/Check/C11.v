(* C11 - layouts see modifiers only as Shift, Ctrl, AltGr, CapsLock and (numpad keys) NumLock *)
From Coq Require Import NArith Bool List.
From PK Require Import Base.Outcome Base.Finite Gen.Types Impl Check.Lay.
Import ListNotations.

(* the canonical record of the class of m, as seen from key k *)
Definition canon (k : KeyCode) (m : Modifiers) : Modifiers :=
  Modifiers_mk (shift_held m) false (ctrl_held m) false
               (if is_numpad k then Modifiers_numlock m else true)
               (Modifiers_capslock m) false (altgr_held m) false.

Definition bad_C11 (I : LayImpl) (l : AnyLayout) (k : KeyCode) (m : Modifiers) (hc : HandleControl) : bool :=
  negb (dk_eqb (lay_map I l k m hc) (lay_map I l k (canon k m) hc)).
Notation cex_C11 I := (cells_where (bad_C11 I)).
Notation ok_C11 I := (forall_cells (fun l k m hc => negb (bad_C11 I l k m hc))).

(* two records that agree on the five facts give the same result *)
Theorem C11_sound (I : LayImpl) : ok_C11 I = true ->
  forall l k m m' hc,
    shift_held m = shift_held m' -> ctrl_held m = ctrl_held m' -> altgr_held m = altgr_held m' ->
    Modifiers_capslock m = Modifiers_capslock m' ->
    (is_numpad k = true -> Modifiers_numlock m = Modifiers_numlock m') ->
    lay_map I l k m hc = lay_map I l k m' hc.
Proof.
  intros H l k m m' hc Hs Hc Ha Hk Hn.
  assert (E : forall x, lay_map I l k x hc = lay_map I l k (canon k x) hc).
  { intros x. pose proof (forall_cells_sound _ H l k x hc) as H1. cbv beta in H1. unfold bad_C11 in H1.
    rewrite negb_involutive in H1. apply dk_eqb_true. exact H1. }
  rewrite (E m), (E m'). unfold canon. rewrite Hs, Hc, Ha, Hk.
  destruct (is_numpad k); [rewrite (Hn eq_refl)|]; reflexivity.
Qed.

(* the five public predicates compute exactly these groupings *)
Definition bad_pred (P : PredImpl) (m : Modifiers) : bool :=
  negb (outcome_eqb Bool.eqb (p_is_shifted P m) (Ret (shift_held m)) &&
        outcome_eqb Bool.eqb (p_is_ctrl P m) (Ret (ctrl_held m)) &&
        outcome_eqb Bool.eqb (p_is_alt P m) (Ret (alt_held m)) &&
        outcome_eqb Bool.eqb (p_is_altgr P m) (Ret (altgr_held m)) &&
        outcome_eqb Bool.eqb (p_is_caps P m) (Ret (xorb (shift_held m) (Modifiers_capslock m)))).
Notation cex_pred P := (filter (bad_pred P) all_Modifiers).

Theorem preds_sound (P : PredImpl) : cex_pred P = [] ->
  forall m, p_is_shifted P m = Ret (shift_held m) /\ p_is_ctrl P m = Ret (ctrl_held m) /\
            p_is_alt P m = Ret (alt_held m) /\ p_is_altgr P m = Ret (altgr_held m) /\
            p_is_caps P m = Ret (xorb (shift_held m) (Modifiers_capslock m)).
Proof.
  intros H m. pose proof (filter_nil_forall _ _ H m (all_Modifiers_complete m)) as B.
  unfold bad_pred in B. apply negb_false_iff in B.
  apply andb_prop in B as [B B5]. apply andb_prop in B as [B B4]. apply andb_prop in B as [B B3]. apply andb_prop in B as [B1 B2].
  beq B1. beq B2. beq B3. beq B4. beq B5. auto.
Qed.
