(* C15 - numpad follows NumLock; editing keys type the same control characters everywhere *)
From Coq Require Import NArith Bool List.
From PK Require Import Base.Outcome Base.Finite Gen.Types Impl Check.Lay Check.C16.
Import ListNotations.
Local Open Scope N_scope.

Definition uni (c : N) : outcome DecodedKey := Ret (DecodedKey_Unicode c).
Definition raw (k : KeyCode) : outcome DecodedKey := Ret (DecodedKey_RawKey k).

Definition digit_of (k : KeyCode) : option N :=
  match k with
  | KeyCode_Numpad0 => Some 48 | KeyCode_Numpad1 => Some 49 | KeyCode_Numpad2 => Some 50 | KeyCode_Numpad3 => Some 51
  | KeyCode_Numpad4 => Some 52 | KeyCode_Numpad5 => Some 53 | KeyCode_Numpad6 => Some 54 | KeyCode_Numpad7 => Some 55
  | KeyCode_Numpad8 => Some 56 | KeyCode_Numpad9 => Some 57 | _ => None
  end.
Definition fixed_char (k : KeyCode) : option N :=
  match k with
  | KeyCode_NumpadDivide => Some 47 | KeyCode_NumpadMultiply => Some 42 | KeyCode_NumpadSubtract => Some 45
  | KeyCode_NumpadAdd => Some 43
  | KeyCode_Escape => Some 27 | KeyCode_Backspace => Some 8 | KeyCode_Tab => Some 9 | KeyCode_Return => Some 10
  | KeyCode_Delete => Some 127 | KeyCode_Spacebar => Some 32
  | _ => None
  end.
(* the decimal separator printed on the numpad of each national keyboard; where German references
   disagree (DIN 2137 prints a comma, many drivers send a period) both are accepted *)
Definition decimal_ok (l : AnyLayout) (c : N) : bool :=
  match l with
  | AnyLayout_No105Key _ | AnyLayout_FiSe105Key _ => c =? 44
  | AnyLayout_De105Key _ => (c =? 44) || (c =? 46)
  | _ => c =? 46
  end.

Definition ok_C15 (F : lay_fn) (l : AnyLayout) (k : KeyCode) (m : Modifiers) (hc : HandleControl) : bool :=
  let r := F l k m hc in
  match digit_of k with
  | Some d =>
      if Modifiers_numlock m then dk_eqb r (uni d)
      else match nav_alias k with Some a => dk_eqb r (raw a) | None => true end    (* Numpad5: no alias named *)
  | None =>
      match fixed_char k with
      | Some c => dk_eqb r (uni c)
      | None =>
          match k with
          | KeyCode_NumpadEnter => dk_eqb r (F l KeyCode_Return m hc)
          | KeyCode_NumpadPeriod =>
              if Modifiers_numlock m then match r with Ret (DecodedKey_Unicode c) => decimal_ok l c | _ => false end
              else dk_eqb r (uni 127)
          | _ => true
          end
      end
  end.

Definition bad_C15 (I : LayImpl) (l : AnyLayout) (k : KeyCode) (m : Modifiers) (hc : HandleControl) : bool :=
  negb (ok_C15 (lay_map I) l k m hc).
Notation cex_C15 I := (cells_where (bad_C15 I)).
Notation all_ok_C15 I := (forall_cells (fun l k m hc => negb (bad_C15 I l k m hc))).

Section Sound.
  Variable I : LayImpl.
  Hypothesis H : all_ok_C15 I = true.
  Lemma ok_all : forall l k m hc, ok_C15 (lay_map I) l k m hc = true.
  Proof. intros. pose proof (forall_cells_sound _ H l k m hc) as H1. cbv beta in H1. unfold bad_C15 in H1. rewrite negb_involutive in H1. exact H1. Qed.

  Theorem C15_digits : forall l k d m hc, digit_of k = Some d ->
    (Modifiers_numlock m = true -> lay_map I l k m hc = uni d) /\
    (Modifiers_numlock m = false -> forall a, nav_alias k = Some a -> lay_map I l k m hc = raw a).
  Proof.
    intros l k d m hc Hd. pose proof (ok_all l k m hc) as O. unfold ok_C15 in O. rewrite Hd in O. split.
    - intros Hn. rewrite Hn in O. apply dk_eqb_true. exact O.
    - intros Hn a Ha. rewrite Hn, Ha in O. apply dk_eqb_true. exact O.
  Qed.
  Theorem C15_fixed : forall l k c m hc, fixed_char k = Some c -> lay_map I l k m hc = uni c.
  Proof.
    intros l k c m hc Hc. pose proof (ok_all l k m hc) as O. unfold ok_C15 in O.
    assert (Hd : digit_of k = None) by (destruct k; try reflexivity; discriminate).
    rewrite Hd, Hc in O. apply dk_eqb_true. exact O.
  Qed.
  Theorem C15_enter : forall l m hc, lay_map I l KeyCode_NumpadEnter m hc = lay_map I l KeyCode_Return m hc.
  Proof. intros l m hc. pose proof (ok_all l KeyCode_NumpadEnter m hc) as O. cbn in O. apply dk_eqb_true. exact O. Qed.
  Theorem C15_decimal : forall l m hc,
    (Modifiers_numlock m = true -> exists c, lay_map I l KeyCode_NumpadPeriod m hc = uni c /\ decimal_ok l c = true) /\
    (Modifiers_numlock m = false -> lay_map I l KeyCode_NumpadPeriod m hc = uni 127).
  Proof.
    intros l m hc. pose proof (ok_all l KeyCode_NumpadPeriod m hc) as O. cbn in O. split; intros Hn; rewrite Hn in O.
    - destruct (lay_map I l KeyCode_NumpadPeriod m hc) as [[k'|c]|]; try discriminate. exists c. auto.
    - apply dk_eqb_true. exact O.
  Qed.
End Sound.
