(* C17 - AnyLayout behaves exactly as the layout it wraps *)
From Coq Require Import NArith Bool List.
From PK Require Import Base.Outcome Base.Finite Gen.Types Impl Check.Lay.
Import ListNotations.

Definition bad_C17 (I : LayImpl) (l : AnyLayout) (k : KeyCode) (m : Modifiers) (hc : HandleControl) : bool :=
  negb (dk_eqb (any_map I l k m hc) (lay_map I l k m hc) && dk_eqb (anyref_map I l k m hc) (lay_map I l k m hc)).
Notation cex_C17 I := (cells_where (bad_C17 I)).
Notation ok_C17 I := (forall_cells (fun l k m hc => negb (bad_C17 I l k m hc))).

Theorem C17_sound (I : LayImpl) : ok_C17 I = true ->
  forall l k m hc, any_map I l k m hc = lay_map I l k m hc /\ anyref_map I l k m hc = lay_map I l k m hc.
Proof.
  intros H l k m hc. pose proof (forall_cells_sound _ H l k m hc) as H1. cbv beta in H1.
  unfold bad_C17 in H1. rewrite negb_involutive in H1. apply andb_prop in H1 as [A B].
  split; apply dk_eqb_true; assumption.
Qed.

(* the ten layouts are pairwise distinguishable, so "that layout and no other" is not vacuous:
   for every pair of distinct variants some (key, modifiers) gives different results *)
Definition probes : list (KeyCode * Modifiers) :=
  flat_map (fun k => [(k, m_none); (k, m_shift); (k, m_altgr)]) all_KeyCode.
Definition distinguishable (I : LayImpl) (a b : AnyLayout) : bool :=
  existsb (fun p => negb (dk_eqb (lay_map I a (fst p) (snd p) HIgn) (lay_map I b (fst p) (snd p) HIgn))) probes.
Definition all_distinct (I : LayImpl) : bool :=
  forallb (fun a => forallb (fun b => AnyLayout_eqb a b || distinguishable I a b) all_AnyLayout) all_AnyLayout.

Theorem distinct_sound (I : LayImpl) : all_distinct I = true ->
  forall a b, a <> b -> exists k m, lay_map I a k m HIgn <> lay_map I b k m HIgn.
Proof.
  intros H a b Hab. unfold all_distinct in H.
  pose proof (forallb_complete _ _ all_AnyLayout_complete H a) as H1. cbv beta in H1.
  pose proof (forallb_complete _ _ all_AnyLayout_complete H1 b) as H2. cbv beta in H2.
  apply orb_prop in H2 as [E|D].
  - beq E. contradiction.
  - unfold distinguishable in D. apply existsb_exists in D as ([k m] & _ & D). exists k, m.
    intros Eq. cbn [fst snd] in D. rewrite Eq in D. unfold dk_eqb in D. rewrite (eqb_refl (outcome_eqb DecodedKey_eqb)) in D. discriminate.
Qed.
