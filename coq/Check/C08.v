(* C08 - no operation panics or overflows for any input in any reachable state.
   In both models a panic, an arithmetic overflow (checked arithmetic), an out-of-range shift and an
   unreachable-code trap all appear as the outcome [Panic]. *)
From Coq Require Import NArith Arith Bool List Lia.
From PK Require Import Base.Outcome Base.Finite Base.Machine Base.Reach Gen.Types Impl Spec.Frame Spec.Mods Check.Scan Check.Ps2M Check.Lay Check.EvImpl Enc.
Import ListNotations.
Local Open Scope N_scope.

(* --- layouts: every cell of all three forms returns a valid Unicode scalar value or a raw key --- *)
Definition valid_result (r : outcome DecodedKey) : bool :=
  match r with
  | Ret (DecodedKey_Unicode c) => (c <? 0xD800) || ((0xDFFF <? c) && (c <? 0x110000))
  | Ret (DecodedKey_RawKey _) => true
  | Panic => false
  end.
Definition bad_lay_C08 (I : LayImpl) (l : AnyLayout) (k : KeyCode) (m : Modifiers) (hc : HandleControl) : bool :=
  negb (valid_result (lay_map I l k m hc) && valid_result (any_map I l k m hc) && valid_result (anyref_map I l k m hc)).
Notation ok_lay_C08 I := (forall_cells (fun l k m hc => negb (bad_lay_C08 I l k m hc))).
Notation cex_lay_C08 I := (cells_where (bad_lay_C08 I)).

Theorem C08_layouts (I : LayImpl) : ok_lay_C08 I = true ->
  forall (F : lay_fn), (F = lay_map I \/ F = any_map I \/ F = anyref_map I) ->
  forall l k m hc, exists d, F l k m hc = Ret d /\ valid_result (Ret d) = true.
Proof.
  intros H F HF l k m hc. pose proof (forall_cells_sound _ H l k m hc) as H1. cbv beta in H1.
  unfold bad_lay_C08 in H1. rewrite negb_involutive in H1. apply andb_prop in H1 as [H1 H3]. apply andb_prop in H1 as [H1 H2].
  assert (V : valid_result (F l k m hc) = true) by (destruct HF as [->|[->| ->]]; assumption).
  destruct (F l k m hc) as [d|]; [exists d; auto | discriminate].
Qed.

(* --- the five predicates --- *)
Definition bad_pred_C08 (P : PredImpl) (m : Modifiers) : bool :=
  negb (is_ret (p_is_shifted P m) && is_ret (p_is_ctrl P m) && is_ret (p_is_alt P m) && is_ret (p_is_altgr P m) && is_ret (p_is_caps P m)).

(* --- scancode decoders: every byte stream, from the reachable-state invariant of C07 --- *)
Theorem C08_scancodes (I : ScanImpl) (key : sc_st I -> N) (s0 : sc_st I) (m : buckets (scan_machine I)) :
  kinv_closed (scan_machine I) (sc_eqb I) key all_bytes m s0 = true ->
  forall bs, Forall byte bs -> exists s' os, run (scan_machine I) s0 bs = Ret (s', os).
Proof.
  intros Hinv bs Hb. apply bytes_in in Hb.
  destruct (@kreach_inv _ _ (scan_machine I) (sc_eqb I) key all_bytes (sc_eqb_ok I) m s0 Hinv bs Hb s0
              (@kinit_in _ _ (scan_machine I) (sc_eqb I) key all_bytes (sc_eqb_ok I) m s0 Hinv)) as (s' & os & R & _).
  eauto.
Qed.

(* --- frame decoder: whole words in any state (all 65536), bit streams with clear anywhere --- *)
Notation panicking_words I s := (filter (fun w => negb (is_ret (ps_add_word I s w))) (all_below 65536)).
Theorem C08_words (I : Ps2Impl) (s0 : ps_st I) :
  (forall s w, ps_add_word I s w = ps_add_word I s0 w) -> panicking_words I s0 = [] ->
  forall s w, w < 65536 -> ps_add_word I s w <> Panic.
Proof.
  intros Hind H s w Hw. rewrite Hind.
  pose proof (filter_nil_forall _ _ H w (all_below_complete 65536 w Hw)) as B. apply negb_false_iff in B.
  destruct (ps_add_word I s0 w); [discriminate | discriminate B].
Qed.

(* --- frame decoder, bit-serial: reachable-state invariant (bounded exploration, then closure).
   The candidate set is kept in a trie keyed by [key] (Base/Reach.v), so that a frame decoder with tens
   of thousands of reachable states is still decided in seconds; any key function is sound. --- *)
Definition ps2_kstates (I : Ps2Impl) (key : ps_st I -> N) (s0 : ps_st I) : buckets (ps2_machine I) :=
  kstates (ps2_machine I) (ps_eqb I) key all_ops 4000 300000 s0.
Notation inv_ps2 I key s0 := (kinv_closed (ps2_machine I) (ps_eqb I) key all_ops (ps2_kstates I key s0) s0).
Theorem C08_bitops (I : Ps2Impl) (key : ps_st I -> N) (s0 : ps_st I) :
  inv_ps2 I key s0 = true -> forall ops : list bit_op, exists s' os, run (ps2_machine I) s0 ops = Ret (s', os).
Proof.
  intros Hinv ops.
  assert (Hall : Forall (fun op => In op all_ops) ops) by (apply Forall_forall; intros op _; apply all_ops_complete).
  destruct (@kreach_inv _ _ (ps2_machine I) (ps_eqb I) key all_ops (ps_eqb_ok I) (ps2_kstates I key s0) s0 Hinv ops Hall s0
              (@kinit_in _ _ (ps2_machine I) (ps_eqb I) key all_ops (ps_eqb_ok I) (ps2_kstates I key s0) s0 Hinv)) as (s' & os & R & _).
  eauto.
Qed.

(* --- event decoder (EvImpl): no step or mode change panics, reachable states closed --- *)
Definition panicking_events (I : EvImpl) : list (ev_state * KeyEvent) :=
  filter (fun x : ev_state * KeyEvent =>
            ev_reach I (fst x) && negb (match ev_step I (fst x) (snd x) with Ret (s', _) => ev_reach I s' | Panic => false end))
         Check.EvImpl.all_steps.
Theorem C08_events (I : EvImpl) : panicking_events I = [] ->
  forall evs s, ev_reach I s = true ->
  exists s' rs, impl_run I s (map EEvent evs) = Ret (s', rs).
Proof.
  intros H evs. induction evs as [|ev evs IH]; intros s Hs; cbn [map impl_run]; [eauto|].
  assert (Hin : In (s, ev) Check.EvImpl.all_steps) by (apply in_prod; [apply all_ev_state_complete | apply all_KeyEvent_complete]).
  pose proof (filter_nil_forall _ _ H (s, ev) Hin) as B. cbn [fst snd] in B. rewrite Hs in B. cbn [andb] in B.
  apply negb_false_iff in B. destruct (ev_step I s ev) as [[s1 r]|]; [|discriminate].
  destruct (IH s1 B) as (s' & rs & R). rewrite R. eauto.
Qed.
