(* C07 - scancode decoders resynchronise after every event or error *)
From Coq Require Import NArith Arith Bool List Lia.
From PK Require Import Base.Outcome Base.Finite Base.Machine Base.Reach Gen.Types Impl Check.Scan.
Import ListNotations.
Local Open Scope N_scope.

Definition silent_sc (o : sc_result) : bool := match o with Ok None => true | _ => false end.

(* candidate set of reachable states: bounded breadth-first exploration from the initial state, kept in a
   trie keyed by [key] (Base/Reach.v; any key function is sound) *)
Definition sc_kstates (I : ScanImpl) (key : sc_st I -> N) (s0 : sc_st I) : buckets (scan_machine I) :=
  kstates (scan_machine I) (sc_eqb I) key all_bytes 4000 50000 s0.
Definition sc_states (I : ScanImpl) (key : sc_st I -> N) (s0 : sc_st I) : list (sc_st I) :=
  kall (scan_machine I) (sc_kstates I key s0).

Notation inv_C07 I key s0 := (kinv_closed (scan_machine I) (sc_eqb I) key all_bytes (sc_kstates I key s0) s0).
Notation resets_C07 I key s0 := (resets (scan_machine I) (sc_eqb I) all_bytes silent_sc (sc_states I key s0) s0).
Notation quiet_C07 I key s0 n :=
  (forallb (fun s => negb (can_silent (scan_machine I) all_bytes silent_sc n s)) (sc_states I key s0)).

(* non-resetting transitions, for the search for a failing input *)
Definition nonresetting (I : ScanImpl) (key : sc_st I -> N) (s0 : sc_st I) : list (sc_st I * N) :=
  flat_map (fun s => map (fun b => (s, b))
     (filter (fun b => match sc_step I s b with
                       | Ret (s', o) => negb (silent_sc o || sc_eqb I s' s0)
                       | Panic => true end) all_bytes)) (sc_states I key s0).
(* a shortest byte stream ending in such a transition *)
Definition find_nonresetting (I : ScanImpl) (key : sc_st I -> N) (s0 : sc_st I) : option (list N) :=
  kfind (scan_machine I) (sc_eqb I) key all_bytes
        (fun _ _ r => match r with Ret (s', o) => negb (silent_sc o || sc_eqb I s' s0) | Panic => true end)
        4000 50000 s0.

Section Sound.
  Variable I : ScanImpl.
  Variable key : sc_st I -> N.
  Variable s0 : sc_st I.
  Hypothesis Hinv : inv_C07 I key s0 = true.
  Hypothesis Hres : resets_C07 I key s0 = true.
  Let Hinit := @kall_init _ _ (scan_machine I) (sc_eqb I) key all_bytes (sc_eqb_ok I) _ _ Hinv.
  Let Hstep := @kall_step _ _ (scan_machine I) (sc_eqb I) key all_bytes (sc_eqb_ok I) _ _ Hinv.

  (* whenever the decoder has just reported an event or an error it is in its initial state, and
     everything that follows is decoded exactly as from a fresh decoder *)
  Theorem C07_resync_sound : forall h b t, Forall byte (h ++ [b]) -> Forall byte t ->
    forall sh oh o, run (scan_machine I) s0 (h ++ [b]) = Ret (sh, oh ++ [o]) -> length oh = length h ->
    silent_sc o = false ->
    sh = s0 /\
    run (scan_machine I) s0 ((h ++ [b]) ++ t) =
      match run (scan_machine I) s0 t with Ret (s', ot) => Ret (s', (oh ++ [o]) ++ ot) | Panic => Panic end.
  Proof.
    intros h b t Hh Ht. apply bytes_in in Hh. apply bytes_in in Ht.
    exact (@resync_gen _ _ (scan_machine I) (sc_eqb I) (sc_eqb_ok I) all_bytes silent_sc (sc_states I key s0) s0 Hinit Hstep Hres h b t Hh Ht).
  Qed.

  (* after any history, among any n consecutive bytes at least one is answered with an event or error *)
  Theorem C07_silence_sound (n : nat) : quiet_C07 I key s0 n = true ->
    forall h b, Forall byte h -> Forall byte b -> length b = n ->
    exists sh oh s' ob, run (scan_machine I) s0 h = Ret (sh, oh) /\ run (scan_machine I) sh b = Ret (s', ob) /\
                        existsb (fun o => negb (silent_sc o)) ob = true.
  Proof.
    intros Hq h b Hh Hb. apply bytes_in in Hh. apply bytes_in in Hb.
    exact (@silence_bound_gen _ _ (scan_machine I) all_bytes silent_sc (sc_states I key s0) s0 Hinit Hstep n Hq h b Hh Hb).
  Qed.
End Sound.
