(* C12 - every printable ASCII character can be typed on every layout *)
From Coq Require Import NArith Bool List Lia.
From PK Require Import Base.Outcome Base.Finite Gen.Types Impl Spec.Known Check.Lay Enc.
Import ListNotations.
Local Open Scope N_scope.

Definition levels : list Modifiers := [m_none; m_shift; m_altgr].
Definition printable : list N := count_from 95 32.       (* space .. tilde *)

(* some key at some plain level types c, whichever the Ctrl-handling mode *)
Definition types_at (F : lay_fn) (l : AnyLayout) (c : N) (k : KeyCode) (m : Modifiers) : bool :=
  dk_eqb (F l k m HMap) (Ret (DecodedKey_Unicode c)) && dk_eqb (F l k m HIgn) (Ret (DecodedKey_Unicode c)).
Definition typable (F : lay_fn) (l : AnyLayout) (c : N) : bool :=
  existsb (fun k => existsb (types_at F l c k) levels) all_KeyCode.

Definition known12 (l : AnyLayout) (c : N) : bool := existsb (list_eqb N.eqb [AnyLayout_idx l; c]) known_C12.
Definition gaps (I : LayImpl) : list (AnyLayout * N) :=
  flat_map (fun l => map (fun c => (l, c)) (filter (fun c => negb (typable (lay_map I) l c)) printable)) all_AnyLayout.
Notation cex_C12 I :=
  (filter (fun x : AnyLayout * N => negb (typable (lay_map I) (fst x) (snd x)) && negb (known12 (fst x) (snd x)))
          (list_prod all_AnyLayout printable)).

Theorem C12_sound (I : LayImpl) : cex_C12 I = [] ->
  forall l c, 32 <= c <= 126 -> known12 l c = false ->
  exists k m, In m levels /\ forall hc, lay_map I l k m hc = Ret (DecodedKey_Unicode c).
Proof.
  intros H l c Hc Hk.
  assert (Hin : In (l, c) (list_prod all_AnyLayout printable)).
  { apply in_prod; [apply all_AnyLayout_complete|]. unfold printable. apply count_from_In. lia. }
  pose proof (filter_nil_forall _ _ H (l, c) Hin) as B. cbn [fst snd] in B. rewrite Hk in B.
  cbn [negb] in B. rewrite andb_true_r in B. apply negb_false_iff in B.
  unfold typable in B. apply existsb_exists in B as (k & _ & B). apply existsb_exists in B as (m & Hm & B).
  exists k, m. split; [exact Hm|]. unfold types_at in B. apply andb_prop in B as [B1 B2].
  intros [|]; apply dk_eqb_true; assumption.
Qed.
