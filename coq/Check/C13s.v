(* C13 at stream level - "everything above the scancode layer is independent of which scancode set the
   hardware delivers", for key streams of ANY length, not one sequence on a fresh decoder.
   A token is one complete Set 2 key sequence (prefix, break flag, code); its i8042 translation is the
   Set 1 sequence of Check/C13.v.  For every list of tokens that Set 2 decodes to ordinary key events, the
   Set 2 decoder fed the concatenated sequences and the Set 1 decoder fed the concatenated translations
   report the same events in the same order, stay silent everywhere else, and end in their initial states;
   pass-through bytes (acknowledgements, resend requests, ...) may be interleaved anywhere.
   The finite fact is a per-token check from the initial state (run to completion, back in the initial
   state); the induction over the token list is generic. *)
From Coq Require Import NArith Arith Bool List Lia.
From PK Require Import Base.Outcome Base.Finite Base.Machine Gen.Types Impl Spec.ScanRef Spec.ScanAuto Spec.Known
  Check.Scan Check.C19 Check.C13.
Import ListNotations.
Local Open Scope N_scope.

Definition tok : Type := (prefix * bool * N)%type.
Definition tok2 (t : tok) : list N := let '(p, brk, c2) := t in seq_set2 p brk c2.
Definition tok1 (t : tok) : list N :=
  let '(p, brk, c2) := t in match xlat c2 with Some c1 => seq_set1 p brk c1 | None => [] end.

Definition silent (o : sc_result) : bool := match o with Ok None => true | _ => false end.
(* what a decoder says, silence dropped *)
Definition said (os : list sc_result) : list sc_result := filter (fun o => negb (silent o)) os.

(* from state s0: every byte but the last is answered by silence, the last by a key event, and the decoder
   is in s0 again *)
Definition one_event (I : ScanImpl) (s0 : sc_st I) (bs : list N) : option KeyEvent :=
  match run (scan_machine I) s0 bs with
  | Ret (s', os) =>
      if sc_eqb I s' s0 && forallb silent (removelast os)
      then match last os (Ok None) with Ok (Some e) => Some e | _ => None end
      else None
  | Panic => None
  end.

Lemma said_app : forall a b, said (a ++ b) = said a ++ said b.
Proof. intros a b. unfold said. apply filter_app. Qed.
Lemma said_silent : forall os, forallb silent os = true -> said os = [].
Proof.
  induction os as [|o os IH]; intros H; [reflexivity|]. simpl in H. apply andb_prop in H as [Ho Hos].
  unfold said. simpl. rewrite Ho. simpl. apply IH. exact Hos.
Qed.

Lemma one_event_run : forall I s0 bs e, one_event I s0 bs = Some e ->
  exists os, run (scan_machine I) s0 bs = Ret (s0, os) /\ said os = [Ok (Some e)].
Proof.
  intros I s0 bs e H. unfold one_event in H.
  destruct (run (scan_machine I) s0 bs) as [[s' os]|]; [|discriminate].
  destruct (sc_eqb I s' s0 && forallb silent (removelast os)) eqn:E; [|discriminate].
  apply andb_prop in E as [Es Esil].
  pose proof (sc_eqb_ok I) as Hspec.
  apply (reflect_eq_true (eqb_spec_pf (f:=sc_eqb I) _ _)) in Es. subst s'.
  exists os. split; [reflexivity|].
  assert (Hne : os <> []) by (destruct os; [simpl in H; discriminate | discriminate]).
  pose proof (said_silent _ Esil) as Hsil.
  rewrite (app_removelast_last (Ok None) Hne) at 1. rewrite said_app. unfold sc_result in *. rewrite Hsil.
  destruct (last os (Ok None)) as [[e'|]|er]; try discriminate.
  injection H as ->. reflexivity.
Qed.

Section Two.
  Variables I1 I2 : ScanImpl.

  (* tokens the theorem speaks about: a translatable code byte in code position, not an open known finding,
     which the Set 2 decoder - alone, from its initial state - reports as a key other than a status code *)
  Definition considered (t : tok) : bool :=
    let '(p, brk, c2) := t in
    code_position p false c2 &&
    match xlat c2 with Some _ => true | None => false end &&
    negb (known13 (wit_a p brk c2)) &&
    match ev_of (last_out I2 (tok2 t)) with Some (k, _) => negb (is_status_key k) | None => false end.

  Definition tok_ok (t : tok) : bool :=
    match sc_init I1, sc_init I2 with
    | Ret s1, Ret s2 =>
        match one_event I2 s2 (tok2 t), one_event I1 s1 (tok1 t) with
        | Some a, Some b => KeyEvent_eqb a b
        | _, _ => false
        end
    | _, _ => false
    end.

  Definition bad_tok (t : tok) : bool := considered t && negb (tok_ok t).
End Two.

Notation cex_C13s I1 I2 := (filter (bad_tok I1 I2) dom3).

(* Bytes that are not part of any key sequence but occur in real streams - command acknowledgements (FA),
   resend requests (FE), echo (EE), self-test results (AA, FC)...: the i8042 passes every byte >= 0x80 that
   its table does not translate through unchanged.  Both decoders may make of such a byte what they like
   (AA is a status code in Set 2 and a Shift release in Set 1), but it must leave neither of them in a
   state other than the initial one: it must not influence what the following keys decode to. *)
Definition passthrough (b : N) : bool :=
  (128 <=? b) && match xlat b with None => true | Some _ => false end &&
  negb ((b =? 0xE0) || (b =? 0xE1) || (b =? 0xF0)).
Definition bad_junk (I1 I2 : ScanImpl) (b : N) : bool := passthrough b && negb (home I2 [b] && home I1 [b]).
Notation cex_junk_C13s I1 I2 := (filter (bad_junk I1 I2) all_bytes).

(* a stream element: a key sequence, or such a byte on its own *)
Inductive stok : Type := SKey (t : tok) | SJunk (b : N).
Definition stok2 (x : stok) : list N := match x with SKey t => tok2 t | SJunk b => [b] end.
Definition stok1 (x : stok) : list N := match x with SKey t => tok1 t | SJunk b => [b] end.

(* the search for a failing input when a per-token check fails: a considered key sequence or a pass-through
   byte, followed by a considered key sequence whose event then differs between the sets *)
Definition last_said (I : ScanImpl) (bs : list N) : outcome sc_result := last_out I bs.
Definition pair_differs (I1 I2 : ScanImpl) (x : stok * tok) : bool :=
  negb (outcome_eqb scres_eqb (last_said I2 (stok2 (fst x) ++ tok2 (snd x))) (last_said I1 (stok1 (fst x) ++ tok1 (snd x)))).
Notation considered_toks I2 := (filter (considered I2) dom3).
Notation firsts_C13s I2 := (map SKey (considered_toks I2) ++ map SJunk (filter passthrough all_bytes)).
Notation cex_pairs_C13s I1 I2 :=
  (filter (pair_differs I1 I2) (list_prod (firsts_C13s I2) (considered_toks I2))).

Section Sound.
  Variables I1 I2 : ScanImpl.
  Variables (s1 : sc_st I1) (s2 : sc_st I2).
  Hypothesis Hi1 : sc_init I1 = Ret s1.
  Hypothesis Hi2 : sc_init I2 = Ret s2.
  Hypothesis Hc : cex_C13s I1 I2 = [].

  Definition good (t : tok) : Prop := snd t < 256 /\ considered I2 t = true.

  Lemma tok_event : forall t, good t ->
    exists e os2 os1,
      run (scan_machine I2) s2 (tok2 t) = Ret (s2, os2) /\ said os2 = [Ok (Some e)] /\
      run (scan_machine I1) s1 (tok1 t) = Ret (s1, os1) /\ said os1 = [Ok (Some e)].
  Proof.
    intros [[p brk] c] [Hb Hg]. cbn [snd] in Hb.
    pose proof (filter_nil_forall _ _ Hc (p, brk, c) (dom3_complete p brk c Hb)) as H.
    unfold bad_tok in H. rewrite Hg in H. cbn [andb] in H. apply negb_false_iff in H.
    unfold tok_ok in H. rewrite Hi1, Hi2 in H.
    destruct (one_event I2 s2 (tok2 (p, brk, c))) as [a|] eqn:E2; [|discriminate].
    destruct (one_event I1 s1 (tok1 (p, brk, c))) as [b|] eqn:E1; [|discriminate].
    beq H. subst b.
    destruct (one_event_run _ _ _ _ E2) as (os2 & R2 & S2).
    destruct (one_event_run _ _ _ _ E1) as (os1 & R1 & S1).
    exists a, os2, os1. auto.
  Qed.

  Hypothesis Hj : cex_junk_C13s I1 I2 = [].

  Definition good_s (x : stok) : Prop :=
    match x with SKey t => good t | SJunk b => b < 256 /\ passthrough b = true end.

  Lemma junk_home : forall b, b < 256 -> passthrough b = true ->
    exists os2 os1, run (scan_machine I2) s2 [b] = Ret (s2, os2) /\ run (scan_machine I1) s1 [b] = Ret (s1, os1).
  Proof.
    intros b Hb Hp.
    pose proof (filter_nil_forall _ _ Hj b (all_bytes_complete b Hb)) as H.
    unfold bad_junk in H. rewrite Hp in H. cbn [andb] in H. apply negb_false_iff in H. apply andb_prop in H as [H2 H1].
    unfold home in H1, H2. rewrite Hi1 in H1. rewrite Hi2 in H2.
    destruct (run (scan_machine I2) s2 [b]) as [[t2 os2]|]; [|discriminate].
    destruct (run (scan_machine I1) s1 [b]) as [[t1 os1]|]; [|discriminate].
    apply (reflect_eq_true (eqb_spec_pf (f:=sc_eqb I2) (EqbSpec:=sc_eqb_ok I2) _ _)) in H2.
    apply (reflect_eq_true (eqb_spec_pf (f:=sc_eqb I1) (EqbSpec:=sc_eqb_ok I1) _ _)) in H1. subst.
    exists os2, os1. auto.
  Qed.

  (* what the two decoders say while one stream element passes *)
  Definition elem_ok (x : stok) (r : list sc_result * list sc_result) : Prop :=
    match x with
    | SKey _ => exists e, said (fst r) = [Ok (Some e)] /\ said (snd r) = [Ok (Some e)]
    | SJunk _ => True
    end.

  (* every stream of considered key sequences and pass-through bytes, of any length: neither decoder
     panics, both are back in their initial states at the end, and while each key sequence passes both
     report the same single event (and nothing else) - whatever preceded it *)
  Theorem C13_stream_sound : forall xs, Forall good_s xs ->
    exists rs : list (list sc_result * list sc_result),
      run (scan_machine I2) s2 (flat_map stok2 xs) = Ret (s2, flat_map fst rs) /\
      run (scan_machine I1) s1 (flat_map stok1 xs) = Ret (s1, flat_map snd rs) /\
      Forall2 elem_ok xs rs.
  Proof.
    induction 1 as [|x xs Hx _ IH].
    - exists []. simpl. auto.
    - destruct IH as (rs & R2 & R1 & Hall).
      destruct x as [t|b].
      + destruct (tok_event t Hx) as (e & o2 & o1 & T2 & U2 & T1 & U1).
        exists ((o2, o1) :: rs). cbn [flat_map stok2 stok1 fst snd].
        rewrite !run_app, T2, T1, R2, R1. repeat split; try reflexivity.
        constructor; [|exact Hall]. exists e. auto.
      + destruct Hx as [Hb Hp]. destruct (junk_home b Hb Hp) as (o2 & o1 & T2 & T1).
        exists ((o2, o1) :: rs). cbn [flat_map stok2 stok1 fst snd].
        rewrite !run_app, T2, T1, R2, R1. repeat split; try reflexivity.
        constructor; [exact Logic.I | exact Hall].
  Qed.
End Sound.

(* for streams of key sequences only: what the two decoders say is the same list *)
Lemma keys_said_equal : forall toks rs, Forall2 elem_ok (map SKey toks) rs ->
  said (flat_map fst rs) = said (flat_map snd rs).
Proof.
  induction toks as [|t toks IH]; intros rs H; inversion H as [|x r xs rs' Hx Hrest]; subst; [reflexivity|].
  cbn [flat_map]. rewrite !said_app. destruct Hx as (e & H2 & H1). rewrite H2, H1. f_equal. apply IH. exact Hrest.
Qed.
