(* C13 at stream level - "everything above the scancode layer is independent of which scancode set the
   hardware delivers", for key streams of ANY length, not one sequence on a fresh decoder.
   A token is one complete Set 2 key sequence (prefix, break flag, code); its i8042 translation is the
   Set 1 sequence of Check/C13.v.  For every list of tokens that Set 2 decodes to ordinary key events, the
   Set 2 decoder fed the concatenated sequences and the Set 1 decoder fed the concatenated translations
   report the same events in the same order, stay silent everywhere else, and end in their initial states.
   The finite fact is a per-token check from the initial state (run to completion, back in the initial
   state); the induction over the token list is generic. *)
From Coq Require Import NArith Arith Bool List Lia.
From PK Require Import Base.Outcome Base.Finite Base.Machine Gen.Types Impl Spec.ScanRef Spec.ScanAuto Spec.Known
  Check.Scan Check.C19 Check.C13.
Import ListNotations.
Local Open Scope N_scope.

Definition tok : Type := (prefix * bool * N)%type.
Definition tok2 (t : tok) : list N := let '(p, brk, c2) := t in seq_set2 p brk c2.
Definition tok1 (t : tok) : list N :=
  let '(p, brk, c2) := t in match xlat c2 with Some c1 => seq_set1 p brk c1 | None => [] end.

Definition silent (o : sc_result) : bool := match o with Ok None => true | _ => false end.
(* what a decoder says, silence dropped *)
Definition said (os : list sc_result) : list sc_result := filter (fun o => negb (silent o)) os.

(* from state s0: every byte but the last is answered by silence, the last by a key event, and the decoder
   is in s0 again *)
Definition one_event (I : ScanImpl) (s0 : sc_st I) (bs : list N) : option KeyEvent :=
  match run (scan_machine I) s0 bs with
  | Ret (s', os) =>
      if sc_eqb I s' s0 && forallb silent (removelast os)
      then match last os (Ok None) with Ok (Some e) => Some e | _ => None end
      else None
  | Panic => None
  end.

Lemma said_app : forall a b, said (a ++ b) = said a ++ said b.
Proof. intros a b. unfold said. apply filter_app. Qed.
Lemma said_silent : forall os, forallb silent os = true -> said os = [].
Proof.
  induction os as [|o os IH]; intros H; [reflexivity|]. simpl in H. apply andb_prop in H as [Ho Hos].
  unfold said. simpl. rewrite Ho. simpl. apply IH. exact Hos.
Qed.

Lemma one_event_run : forall I s0 bs e, one_event I s0 bs = Some e ->
  exists os, run (scan_machine I) s0 bs = Ret (s0, os) /\ said os = [Ok (Some e)].
Proof.
  intros I s0 bs e H. unfold one_event in H.
  destruct (run (scan_machine I) s0 bs) as [[s' os]|]; [|discriminate].
  destruct (sc_eqb I s' s0 && forallb silent (removelast os)) eqn:E; [|discriminate].
  apply andb_prop in E as [Es Esil].
  pose proof (sc_eqb_ok I) as Hspec.
  apply (reflect_eq_true (eqb_spec_pf (f:=sc_eqb I) _ _)) in Es. subst s'.
  exists os. split; [reflexivity|].
  assert (Hne : os <> []) by (destruct os; [simpl in H; discriminate | discriminate]).
  pose proof (said_silent _ Esil) as Hsil.
  rewrite (app_removelast_last (Ok None) Hne) at 1. rewrite said_app. unfold sc_result in *. rewrite Hsil.
  destruct (last os (Ok None)) as [[e'|]|er]; try discriminate.
  injection H as ->. reflexivity.
Qed.

Section Two.
  Variables I1 I2 : ScanImpl.

  (* tokens the theorem speaks about: a translatable code byte in code position, not an open known finding,
     which the Set 2 decoder - alone, from its initial state - reports as a key other than a status code *)
  Definition considered (t : tok) : bool :=
    let '(p, brk, c2) := t in
    code_position p false c2 &&
    match xlat c2 with Some _ => true | None => false end &&
    negb (known13 (wit_a p brk c2)) &&
    match ev_of (last_out I2 (tok2 t)) with Some (k, _) => negb (is_status_key k) | None => false end.

  Definition tok_ok (t : tok) : bool :=
    match sc_init I1, sc_init I2 with
    | Ret s1, Ret s2 =>
        match one_event I2 s2 (tok2 t), one_event I1 s1 (tok1 t) with
        | Some a, Some b => KeyEvent_eqb a b
        | _, _ => false
        end
    | _, _ => false
    end.

  Definition bad_tok (t : tok) : bool := considered t && negb (tok_ok t).
End Two.

Notation cex_C13s I1 I2 := (filter (bad_tok I1 I2) dom3).

(* the search for a failing input when the per-token check fails: two considered tokens in a row whose
   events differ between the sets (the first token leaves something behind) *)
Definition events_of_stream (I : ScanImpl) (bs : list N) : outcome (list sc_result) :=
  match sc_init I with
  | Ret s0 => omap said (outs (scan_machine I) s0 bs)
  | Panic => Panic
  end.
Definition pair_differs (I1 I2 : ScanImpl) (x : tok * tok) : bool :=
  negb (outcome_eqb (list_eqb scres_eqb)
          (events_of_stream I2 (tok2 (fst x) ++ tok2 (snd x)))
          (events_of_stream I1 (tok1 (fst x) ++ tok1 (snd x)))).
Notation considered_toks I2 := (filter (considered I2) dom3).
Notation cex_pairs_C13s I1 I2 :=
  (filter (pair_differs I1 I2) (list_prod (considered_toks I2) (considered_toks I2))).

Section Sound.
  Variables I1 I2 : ScanImpl.
  Variables (s1 : sc_st I1) (s2 : sc_st I2).
  Hypothesis Hi1 : sc_init I1 = Ret s1.
  Hypothesis Hi2 : sc_init I2 = Ret s2.
  Hypothesis Hc : cex_C13s I1 I2 = [].

  Definition good (t : tok) : Prop := snd t < 256 /\ considered I2 t = true.

  Lemma tok_event : forall t, good t ->
    exists e os2 os1,
      run (scan_machine I2) s2 (tok2 t) = Ret (s2, os2) /\ said os2 = [Ok (Some e)] /\
      run (scan_machine I1) s1 (tok1 t) = Ret (s1, os1) /\ said os1 = [Ok (Some e)].
  Proof.
    intros [[p brk] c] [Hb Hg]. cbn [snd] in Hb.
    pose proof (filter_nil_forall _ _ Hc (p, brk, c) (dom3_complete p brk c Hb)) as H.
    unfold bad_tok in H. rewrite Hg in H. cbn [andb] in H. apply negb_false_iff in H.
    unfold tok_ok in H. rewrite Hi1, Hi2 in H.
    destruct (one_event I2 s2 (tok2 (p, brk, c))) as [a|] eqn:E2; [|discriminate].
    destruct (one_event I1 s1 (tok1 (p, brk, c))) as [b|] eqn:E1; [|discriminate].
    beq H. subst b.
    destruct (one_event_run _ _ _ _ E2) as (os2 & R2 & S2).
    destruct (one_event_run _ _ _ _ E1) as (os1 & R1 & S1).
    exists a, os2, os1. auto.
  Qed.

  (* every stream of considered key sequences, of any length: both decoders report the same events, one
     per sequence, say nothing else, never panic, and are back in their initial states at the end *)
  Theorem C13_stream_sound : forall toks, Forall good toks ->
    exists evs os2 os1,
      run (scan_machine I2) s2 (flat_map tok2 toks) = Ret (s2, os2) /\
      run (scan_machine I1) s1 (flat_map tok1 toks) = Ret (s1, os1) /\
      said os2 = map (fun e => Ok (Some e)) evs /\ said os1 = map (fun e => Ok (Some e)) evs /\
      length evs = length toks.
  Proof.
    induction 1 as [|t toks Ht _ IH].
    - exists [], [], []. simpl. auto.
    - destruct IH as (evs & os2 & os1 & R2 & R1 & S2 & S1 & Hl).
      destruct (tok_event t Ht) as (e & o2 & o1 & T2 & U2 & T1 & U1).
      exists (e :: evs), (o2 ++ os2), (o1 ++ os1). cbn [flat_map].
      rewrite !run_app, T2, T1, R2, R1, !said_app, U2, U1, S2, S1. simpl. rewrite Hl. auto.
  Qed.
End Sound.
