(* C09 - Ctrl+letter yields U+0001..U+001A for the letter the layout types *)
From Coq Require Import NArith Bool List Lia.
From PK Require Import Base.Outcome Base.Finite Gen.Types Impl Spec.Known Check.Lay.
Import ListNotations.
Local Open Scope N_scope.

(* the lower-case letter that key k types on layout l with nothing held (mapping off), if any *)
Definition letter_of (F : lay_fn) (l : AnyLayout) (k : KeyCode) : option N :=
  match F l k m_none HIgn with
  | Ret (DecodedKey_Unicode c) => if (97 <=? c) && (c <=? 122) then Some c else None
  | _ => None
  end.

Definition ok_cell_C09 (F : lay_fn) (l : AnyLayout) (k : KeyCode) (m : Modifiers) : bool :=
  match letter_of F l k with
  | Some c =>
      if ctrl_held m then
        (* Ctrl held, no Alt of either kind: the control character of the layout's letter *)
        (Modifiers_lalt m || Modifiers_ralt m) || dk_eqb (F l k m HMap) (Ret (DecodedKey_Unicode (c - 96)))
      else dk_eqb (F l k m HMap) (F l k m HIgn)               (* Ctrl not held: mapping changes nothing *)
  | None => dk_eqb (F l k m HMap) (F l k m HIgn)              (* not a letter key: mapping changes nothing *)
  end.

Definition bad_C09 (I : LayImpl) (l : AnyLayout) (k : KeyCode) (m : Modifiers) (hc : HandleControl) : bool :=
  match hc with
  | HandleControl_MapLettersToUnicode => negb (ok_cell_C09 (lay_map I) l k m) && negb (known_in known_C09 l k)
  | HandleControl_Ignore => false
  end.
Notation cex_C09 I := (cells_where (bad_C09 I)).
Notation ok_C09 I := (forall_cells (fun l k m hc => negb (bad_C09 I l k m hc))).

Section Sound.
  Variable I : LayImpl.
  Hypothesis H : ok_C09 I = true.
  Lemma cell_ok : forall l k m, known_in known_C09 l k = false -> ok_cell_C09 (lay_map I) l k m = true.
  Proof.
    intros l k m Hk. pose proof (forall_cells_sound _ H l k m HMap) as H1. cbv beta in H1.
    unfold bad_C09, HMap in H1. rewrite Hk in H1. cbn [negb andb] in H1. rewrite andb_true_r in H1.
    rewrite negb_involutive in H1. exact H1.
  Qed.

  Theorem C09_sound : forall l k c m, known_in known_C09 l k = false ->
    letter_of (lay_map I) l k = Some c ->
    ctrl_held m = true -> Modifiers_lalt m = false -> Modifiers_ralt m = false ->
    lay_map I l k m HMap = Ret (DecodedKey_Unicode (c - 96)).
  Proof.
    intros l k c m Hk Hl Hc Ha Hr. pose proof (cell_ok l k m Hk) as O. unfold ok_cell_C09 in O.
    rewrite Hl, Hc, Ha, Hr in O. cbn [orb] in O. apply dk_eqb_true. exact O.
  Qed.

  Theorem C09_inert : forall l k m, known_in known_C09 l k = false ->
    (ctrl_held m = false \/ letter_of (lay_map I) l k = None) ->
    lay_map I l k m HMap = lay_map I l k m HIgn.
  Proof.
    intros l k m Hk [Hc|Hn]; pose proof (cell_ok l k m Hk) as O; unfold ok_cell_C09 in O.
    - rewrite Hc in O. destruct (letter_of (lay_map I) l k); apply dk_eqb_true; exact O.
    - rewrite Hn in O. apply dk_eqb_true. exact O.
  Qed.
End Sound.
