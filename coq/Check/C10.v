(* C10 - CapsLock inverts Shift on letter keys and affects nothing else *)
From Coq Require Import NArith Bool List Lia.
From PK Require Import Base.Outcome Base.Finite Gen.Types Impl Spec.Known Check.Lay.
Import ListNotations.
Local Open Scope N_scope.

(* upper-case form of an ASCII or Latin-1 lower-case letter *)
Definition upper_of (c : N) : option N :=
  if ((97 <=? c) && (c <=? 122)) || ((224 <=? c) && (c <=? 254) && negb (c =? 247)) then Some (c - 32) else None.

(* a cased key types a lower-case letter plain and its capital with Shift *)
Definition cased (F : lay_fn) (l : AnyLayout) (k : KeyCode) : bool :=
  match F l k m_none HIgn, F l k m_shift HIgn with
  | Ret (DecodedKey_Unicode c), Ret (DecodedKey_Unicode C) =>
      match upper_of c with Some u => u =? C | None => false end
  | _, _ => false
  end.

Definition with_caps (m : Modifiers) : Modifiers := Modifiers_set_capslock true m.
Definition invert_shift (m : Modifiers) : Modifiers :=
  if shift_held m then Modifiers_set_lshift false (Modifiers_set_rshift false m) else Modifiers_set_lshift true m.

Definition ok_cell_C10 (F : lay_fn) (l : AnyLayout) (k : KeyCode) (m : Modifiers) (hc : HandleControl) : bool :=
  if cased F l k then dk_eqb (F l k (with_caps m) hc) (F l k (invert_shift m) hc)
  else dk_eqb (F l k (with_caps m) hc) (F l k m hc).

Definition bad_C10 (I : LayImpl) (l : AnyLayout) (k : KeyCode) (m : Modifiers) (hc : HandleControl) : bool :=
  negb (Modifiers_capslock m) && negb (ok_cell_C10 (lay_map I) l k m hc) && negb (known_in known_C10 l k).
Notation cex_C10 I := (cells_where (bad_C10 I)).
Notation ok_C10 I := (forall_cells (fun l k m hc => negb (bad_C10 I l k m hc))).

Theorem C10_sound (I : LayImpl) : ok_C10 I = true ->
  forall l k m hc, known_in known_C10 l k = false -> Modifiers_capslock m = false ->
    if cased (lay_map I) l k
    then lay_map I l k (with_caps m) hc = lay_map I l k (invert_shift m) hc
    else lay_map I l k (with_caps m) hc = lay_map I l k m hc.
Proof.
  intros H l k m hc Hk Hc. pose proof (forall_cells_sound _ H l k m hc) as H1. cbv beta in H1.
  unfold bad_C10 in H1. rewrite Hk, Hc in H1. cbn [negb andb] in H1. rewrite andb_true_r in H1.
  rewrite negb_involutive in H1. unfold ok_cell_C10 in H1.
  destruct (cased (lay_map I) l k); apply dk_eqb_true; exact H1.
Qed.
