(* C19 - make/break pairing and one-to-one sequences within each scancode set.
   Everything goes through the decoder from its initial state; no reference table is involved. *)
From Coq Require Import NArith Arith Bool List Lia.
From PK Require Import Base.Outcome Base.Finite Base.Machine Gen.Types Impl Spec.ScanRef Spec.ScanAuto Check.Scan.
Import ListNotations.
Local Open Scope N_scope.

Definition last_out (I : ScanImpl) (bs : list N) : outcome sc_result :=
  match sc_init I with
  | Ret s0 => omap (fun os => last os (Ok None)) (outs (scan_machine I) s0 bs)
  | Panic => Panic
  end.

(* the complete key sequences of a set: (prefix, code) in code position; make and break forms *)
Inductive which_set : Type := Set1 | Set2.
Definition wf (w : which_set) (p : prefix) (c : N) : bool :=
  match w with
  | Set2 => code_position p false c
  | Set1 => c <? 128
  end.
Definition make_seq (w : which_set) (p : prefix) (c : N) : list N :=
  match w with Set2 => path2 (p, false) ++ [c] | Set1 => path1 p ++ [c] end.
Definition break_seq (w : which_set) (p : prefix) (c : N) : list N :=
  match w with Set2 => path2 (p, true) ++ [c] | Set1 => path1 p ++ [c + 128] end.

Definition ev_of (r : outcome sc_result) : option (KeyCode * KeyState) :=
  match r with Ret (Ok (Some ev)) => Some (KeyEvent_code ev, KeyEvent_state ev) | _ => None end.
Definition is_status_key (k : KeyCode) : bool :=
  match k with KeyCode_TooManyKeys | KeyCode_PowerOnTestOk => true | _ => false end.

Definition pair_ok (I : ScanImpl) (w : which_set) (p : prefix) (c : N) : bool :=
  let mk := last_out I (make_seq w p c) in
  let br := last_out I (break_seq w p c) in
  is_ret mk && is_ret br &&
  match ev_of mk, ev_of br with
  | Some (k, KeyState_Down), Some (k', KeyState_Up) => KeyCode_eqb k k'
  | Some (k, KeyState_SingleShot), _ => is_status_key k
  | Some (_, _), _ => false
  | None, Some _ => false
  | None, None => true
  end.

Definition domain : list (prefix * N) := flat_map (fun p => map (fun c => (p, c)) all_bytes) all_prefix.
Lemma domain_complete : forall p c, c < 256 -> In (p, c) domain.
Proof.
  intros p c H. unfold domain. apply in_flat_map. exists p. split; [apply all_prefix_complete|].
  apply in_map. apply all_bytes_complete. exact H.
Qed.

Definition wf_domain (w : which_set) : list (prefix * N) := filter (fun x => wf w (fst x) (snd x)) domain.

Notation unpaired_C19 I w := (filter (fun x : prefix * N => negb (pair_ok I w (fst x) (snd x))) (wf_domain w)).

(* keys pressed by the make sequences, with their sequences *)
Definition down_keys (I : ScanImpl) (w : which_set) : list (KeyCode * (prefix * N)) :=
  flat_map (fun x : prefix * N => match ev_of (last_out I (make_seq w (fst x) (snd x))) with
                    | Some (k, KeyState_Down) => [(k, x)]
                    | _ => [] end) (wf_domain w).
(* pairs of distinct sequences pressing the same key *)
Definition pn_eqb (a b : prefix * N) : bool := prefix_eqb (fst a) (fst b) && N.eqb (snd a) (snd b).
Notation clashes_C19 I w :=
  (filter (fun ab : (KeyCode * (prefix * N)) * (KeyCode * (prefix * N)) =>
             KeyCode_eqb (fst (fst ab)) (fst (snd ab)) && negb (pn_eqb (snd (fst ab)) (snd (snd ab))))
          (list_prod (down_keys I w) (down_keys I w))).

(* --- in any history: every complete sequence, make or break form, defined or not, leaves the decoder in
   its initial state; hence in a stream of complete sequences each one is decoded exactly as on a fresh
   decoder, and pairing and one-to-one-ness hold for it whatever was typed before --- *)
Definition home (I : ScanImpl) (bs : list N) : bool :=
  match sc_init I with
  | Ret s0 => match run (scan_machine I) s0 bs with Ret (s', _) => sc_eqb I s' s0 | Panic => false end
  | Panic => false
  end.
(* in Set 1 the "break forms" of the unprefixed codes 0x60 and 0x61 are the prefix bytes E0 and E1 themselves:
   those two are not key sequences *)
Definition complete (w : which_set) (p : prefix) (c : N) : bool :=
  wf w p c &&
  match w with
  | Set1 => negb (prefix_eqb p P0 && ((c =? 0x60) || (c =? 0x61)))
  | Set2 => true
  end.
Notation homeless_C19 I w :=
  (filter (fun x : prefix * N => complete w (fst x) (snd x) &&
                                 negb (home I (make_seq w (fst x) (snd x)) && home I (break_seq w (fst x) (snd x)))) (wf_domain w)).

(* a complete sequence: break flag, prefix, code *)
Definition cseq : Type := (bool * prefix * N)%type.
Definition cseq_bytes (w : which_set) (q : cseq) : list N :=
  let '(brk, p, c) := q in if brk then break_seq w p c else make_seq w p c.
Definition cseq_ok (w : which_set) (q : cseq) : Prop := let '(_, p, c) := q in c < 256 /\ complete w p c = true.

Section History.
  Variable I : ScanImpl.
  Variable w : which_set.
  Variable s0 : sc_st I.
  Hypothesis Hi : sc_init I = Ret s0.
  Hypothesis Hh : homeless_C19 I w = [].

  Lemma cseq_home : forall q, cseq_ok w q -> exists os, run (scan_machine I) s0 (cseq_bytes w q) = Ret (s0, os).
  Proof.
    intros [[brk p] c] [Hc Hw].
    assert (Hin : In (p, c) (wf_domain w)).
    { unfold wf_domain. apply filter_In. split; [apply domain_complete; exact Hc |].
      unfold complete in Hw. apply andb_prop in Hw as [Hw _]. exact Hw. }
    pose proof (filter_nil_forall _ _ Hh (p, c) Hin) as H. cbn [fst snd] in H. rewrite Hw in H. cbn [andb] in H.
    apply negb_false_iff in H.
    apply andb_prop in H as [Hm Hb]. unfold home in Hm, Hb. rewrite Hi in Hm, Hb. cbn [cseq_bytes].
    destruct brk.
    - destruct (run (scan_machine I) s0 (break_seq w p c)) as [[s' os]|]; [|discriminate].
      apply (reflect_eq_true (eqb_spec_pf (f:=sc_eqb I) (EqbSpec:=sc_eqb_ok I) _ _)) in Hb. subst s'. eauto.
    - destruct (run (scan_machine I) s0 (make_seq w p c)) as [[s' os]|]; [|discriminate].
      apply (reflect_eq_true (eqb_spec_pf (f:=sc_eqb I) (EqbSpec:=sc_eqb_ok I) _ _)) in Hm. subst s'. eauto.
  Qed.

  (* any stream of complete sequences, of any length: the outputs are the concatenation of what each
     sequence yields on a fresh decoder *)
  Theorem C19_history_sound : forall qs, Forall (cseq_ok w) qs ->
    exists oss : list (list sc_result),
      run (scan_machine I) s0 (flat_map (cseq_bytes w) qs) = Ret (s0, List.concat oss) /\
      Forall2 (fun q os => run (scan_machine I) s0 (cseq_bytes w q) = Ret (s0, os)) qs oss.
  Proof.
    induction 1 as [|q qs Hq _ IH].
    - exists []. simpl. auto.
    - destruct IH as (oss & R & F). destruct (cseq_home q Hq) as (os & Rq).
      exists (os :: oss). cbn [flat_map List.concat]. rewrite run_app, Rq, R. split; [reflexivity|]. constructor; assumption.
  Qed.
End History.

Section Sound.
  Variable I : ScanImpl.
  Variable w : which_set.
  Hypothesis Hp : unpaired_C19 I w = [].
  Hypothesis Hc : clashes_C19 I w = [].

  Lemma pair_ok_all : forall p c, c < 256 -> wf w p c = true -> pair_ok I w p c = true.
  Proof.
    intros p c Hc' Hw.
    assert (Hin : In (p, c) (wf_domain w)).
    { unfold wf_domain. apply filter_In. split; [apply domain_complete; exact Hc' | exact Hw]. }
    pose proof (filter_nil_forall _ _ Hp (p, c) Hin) as H. simpl in H. apply negb_false_iff in H. exact H.
  Qed.

  (* a sequence that presses K releases the same K in its break form *)
  Theorem C19_make_break : forall p c k, c < 256 -> wf w p c = true ->
    last_out I (make_seq w p c) = Ret (Ok (Some (KeyEvent_mk k KeyState_Down))) ->
    last_out I (break_seq w p c) = Ret (Ok (Some (KeyEvent_mk k KeyState_Up))).
  Proof.
    intros p c k Hc' Hw Hm. pose proof (pair_ok_all p c Hc' Hw) as H. unfold pair_ok in H.
    rewrite Hm in H. cbn [is_ret ev_of KeyEvent_code KeyEvent_state andb] in H.
    destruct (last_out I (break_seq w p c)) as [[[[k' s']|]|e]|]; cbn [is_ret ev_of andb KeyEvent_code KeyEvent_state] in H; try discriminate.
    destruct s'; try discriminate. beq H. subst k'. reflexivity.
  Qed.

  (* no release names a key that cannot be pressed, the two one-shot status codes aside *)
  Theorem C19_break_make : forall p c k, c < 256 -> wf w p c = true ->
    last_out I (break_seq w p c) = Ret (Ok (Some (KeyEvent_mk k KeyState_Up))) ->
    last_out I (make_seq w p c) = Ret (Ok (Some (KeyEvent_mk k KeyState_Down))) \/
    (exists k', is_status_key k' = true /\ last_out I (make_seq w p c) = Ret (Ok (Some (KeyEvent_mk k' KeyState_SingleShot)))).
  Proof.
    intros p c k Hc' Hw Hb. pose proof (pair_ok_all p c Hc' Hw) as H. unfold pair_ok in H.
    rewrite Hb in H. cbn [is_ret ev_of KeyEvent_code KeyEvent_state andb] in H.
    destruct (last_out I (make_seq w p c)) as [[[[k' s']|]|e]|]; cbn [is_ret ev_of andb KeyEvent_code KeyEvent_state] in H; try discriminate.
    destruct s'; try discriminate.
    - beq H. subst k'. left. reflexivity.
    - right. exists k'. split; [exact H | reflexivity].
  Qed.

  (* distinct complete sequences denote distinct keys *)
  Theorem C19_one_to_one : forall p c p' c' k, c < 256 -> c' < 256 -> wf w p c = true -> wf w p' c' = true ->
    last_out I (make_seq w p c) = Ret (Ok (Some (KeyEvent_mk k KeyState_Down))) ->
    last_out I (make_seq w p' c') = Ret (Ok (Some (KeyEvent_mk k KeyState_Down))) ->
    p = p' /\ c = c'.
  Proof.
    intros p c p' c' k H1 H2 W1 W2 M1 M2.
    assert (D1 : In (k, (p, c)) (down_keys I w)).
    { unfold down_keys. apply in_flat_map. exists (p, c). split.
      - unfold wf_domain. apply filter_In. split; [apply domain_complete; exact H1 | exact W1].
      - cbn [fst snd]. rewrite M1. left. reflexivity. }
    assert (D2 : In (k, (p', c')) (down_keys I w)).
    { unfold down_keys. apply in_flat_map. exists (p', c'). split.
      - unfold wf_domain. apply filter_In. split; [apply domain_complete; exact H2 | exact W2].
      - cbn [fst snd]. rewrite M2. left. reflexivity. }
    pose proof (filter_nil_forall _ _ Hc ((k, (p, c)), (k, (p', c'))) (proj2 (in_prod_iff _ _ _ _) (conj D1 D2))) as H.
    cbn [fst snd] in H. rewrite (eqb_refl KeyCode_eqb) in H. cbn [andb] in H. apply negb_false_iff in H.
    unfold pn_eqb in H. cbn [fst snd] in H. apply andb_prop in H as [Ha Hb].
    destruct (prefix_eqb_spec p p'); [|discriminate]. apply N.eqb_eq in Hb. auto.
  Qed.
End Sound.
