(* C03 - each layout types the characters of the national layout it is named after *)
From Coq Require Import NArith Bool List Lia.
From PK Require Import Base.Outcome Base.Finite Gen.Types Impl Spec.Known Spec.Charts Check.Lay.
Import ListNotations.
Local Open Scope N_scope.

Definition in_set (r : outcome DecodedKey) (s : list N) : bool :=
  match r with Ret (DecodedKey_Unicode c) => existsb (N.eqb c) s | _ => false end.
Definition drop_altgr (m : Modifiers) : Modifiers := Modifiers_set_ralt false (Modifiers_set_lalt false m).
Definition ctrl_mapped (m : Modifiers) (hc : HandleControl) : bool :=
  match hc with HandleControl_MapLettersToUnicode => ctrl_held m | HandleControl_Ignore => false end.

Definition ok_cell_C03 (F : lay_fn) (l : AnyLayout) (k : KeyCode) (m : Modifiers) (hc : HandleControl) : bool :=
  match chart l k with
  | None => true
  | Some cell =>
      if Modifiers_capslock m || ctrl_mapped m hc then true
      else
        let r := F l k m hc in
        match altgr_held m, shift_held m with
        | false, false => in_set r (c_base cell)
        | false, true => match c_shift cell with Some s => in_set r s | None => true end
        | true, false =>
            (* a key that has a distinct AltGr character (judged at plain right-Alt) has it in EVERY state
               selecting that level - right Alt, or left Alt with either Ctrl - never the base character *)
            (dk_eqb (F l k m_altgr hc) (F l k m_none hc) || negb (dk_eqb r (F l k (drop_altgr m) hc))) &&
            (dk_eqb r (F l k (drop_altgr m) hc) ||
             match c_altgr cell with Some a => in_set r a | None => true end)
        | true, true => true
        end
  end.

Definition bad_C03 (I : LayImpl) (l : AnyLayout) (k : KeyCode) (m : Modifiers) (hc : HandleControl) : bool :=
  negb (ok_cell_C03 (lay_map I) l k m hc) && negb (known_in known_C03 l k).
Notation cex_C03 I := (cells_where (bad_C03 I)).
Notation ok_C03 I := (forall_cells (fun l k m hc => negb (bad_C03 I l k m hc))).

Theorem C03_sound (I : LayImpl) : ok_C03 I = true ->
  forall l k cell m hc, chart l k = Some cell -> known_in known_C03 l k = false ->
    Modifiers_capslock m = false -> ctrl_mapped m hc = false ->
    match altgr_held m, shift_held m with
    | false, false => exists c, lay_map I l k m hc = Ret (DecodedKey_Unicode c) /\ In c (c_base cell)
    | false, true => forall s, c_shift cell = Some s -> exists c, lay_map I l k m hc = Ret (DecodedKey_Unicode c) /\ In c s
    | true, false => (lay_map I l k m_altgr hc <> lay_map I l k m_none hc -> lay_map I l k m hc <> lay_map I l k (drop_altgr m) hc) /\
                     (lay_map I l k m hc = lay_map I l k (drop_altgr m) hc \/
                      forall a, c_altgr cell = Some a -> exists c, lay_map I l k m hc = Ret (DecodedKey_Unicode c) /\ In c a)
    | true, true => True
    end.
Proof.
  intros H l k cell m hc Hch Hk Hc Hm. pose proof (forall_cells_sound _ H l k m hc) as H1. cbv beta in H1.
  unfold bad_C03 in H1. rewrite Hk in H1. cbn [negb] in H1. rewrite andb_true_r, negb_involutive in H1.
  unfold ok_cell_C03 in H1. rewrite Hch, Hc, Hm in H1. cbn [orb] in H1.
  assert (IS : forall r s, in_set r s = true -> exists c, r = Ret (DecodedKey_Unicode c) /\ In c s).
  { intros r s Hr. unfold in_set in Hr. destruct r as [[k'|c]|]; try discriminate.
    apply existsb_exists in Hr as (x & Hx & E). apply N.eqb_eq in E. subst x. exists c. auto. }
  destruct (altgr_held m), (shift_held m).
  - exact Logic.I.
  - apply andb_prop in H1 as [U H1]. split.
    + intros Hd Heq. apply orb_prop in U as [U|U].
      * apply Hd. apply dk_eqb_true. exact U.
      * rewrite Heq, dk_eqb_refl in U. discriminate.
    + apply orb_prop in H1 as [E|A].
      * left. apply dk_eqb_true. exact E.
      * right. intros a Ha. rewrite Ha in A. apply IS. exact A.
  - intros s Hs. rewrite Hs in H1. apply IS. exact H1.
  - apply IS. exact H1.
Qed.
