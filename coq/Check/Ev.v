(* Event decoder, on the generated generic code for an arbitrary layout implementation (the EvImpl-level
   checks - tables of the compiled crate, recording layout - are in Check/EvImpl.v). *)
From Coq Require Import NArith Arith Bool List Lia.
From PK Require Import Base.Outcome Base.Finite Gen.Types Impl Spec.Event.
From PK Require Export Check.EvImpl.
Import ListNotations.

(* ---------- on the generated generic code, for an arbitrary layout implementation ---------- *)
Section Generic.
  Context {L : Type} (f : L -> KeyCode -> Modifiers -> HandleControl -> outcome DecodedKey).
  Variable process : EventDecoder L -> KeyEvent -> outcome (EventDecoder L * option DecodedKey).
  Variable set_mode : EventDecoder L -> HandleControl -> outcome (EventDecoder L * unit).
  Variable set_layout : EventDecoder L -> L -> outcome (EventDecoder L * unit).
  Hypothesis Hp : forall d ev, omap fst (process d ev) = omap fst (spec_process f d ev).
  Hypothesis Hm : forall d hc, set_mode d hc = Ret (EventDecoder_mk hc (EventDecoder_modifiers d) (EventDecoder_layout d), tt).
  Hypothesis Hl : forall d l, set_layout d l = Ret (EventDecoder_mk (EventDecoder_handle_ctrl d) (EventDecoder_modifiers d) l, tt).

  (* the decoder state after one operation / a sequence of operations (results are C14's business) *)
  Definition gen_op (d : EventDecoder L) (op : ev_op (L:=L)) : outcome (EventDecoder L) :=
    match op with
    | OpEvent ev => omap fst (process d ev)
    | OpMode hc => omap fst (set_mode d hc)
    | OpLayout l => omap fst (set_layout d l)
    end.
  Fixpoint gen_run (d : EventDecoder L) (ops : list (ev_op (L:=L))) : outcome (EventDecoder L) :=
    match ops with
    | [] => Ret d
    | op :: rest => match gen_op d op with Ret d' => gen_run d' rest | Panic => Panic end
    end.
  Fixpoint spec_gen_run (d : EventDecoder L) (ops : list (ev_op (L:=L))) : outcome (EventDecoder L) :=
    match ops with
    | [] => Ret d
    | op :: rest => match omap fst (spec_op f d op) with Ret d' => spec_gen_run d' rest | Panic => Panic end
    end.

  Lemma gen_op_spec : forall d op, gen_op d op = omap fst (spec_op f d op).
  Proof. intros d [ev|hc|l]; simpl; [apply Hp | rewrite Hm; reflexivity | rewrite Hl; reflexivity]. Qed.

  Theorem gen_run_spec : forall ops d, gen_run d ops = spec_gen_run d ops.
  Proof.
    induction ops as [|op ops IH]; intros d; simpl; [reflexivity|].
    rewrite gen_op_spec. destruct (omap fst (spec_op f d op)) as [d'|]; [|reflexivity]. rewrite IH. reflexivity.
  Qed.

  Lemma spec_op_mods : forall d op d' r, spec_op f d op = Ret (d', r) ->
    EventDecoder_modifiers d' = fold_left mods_step (events_of [op]) (EventDecoder_modifiers d).
  Proof.
    intros d [ev|hc|l] d' r H; simpl in *.
    - unfold spec_process in H.
      destruct (event_result _ _ _ ev) as [[x|]|]; try discriminate; injection H as <- _; reflexivity.
    - injection H as <- _. reflexivity.
    - injection H as <- _. reflexivity.
  Qed.

  (* C04 for every layout: whenever a run returns, the reported modifiers are the history's reading *)
  Theorem gen_mods_history : forall ops d d',
    gen_run d ops = Ret d' ->
    EventDecoder_modifiers d' = fold_left mods_step (events_of ops) (EventDecoder_modifiers d).
  Proof.
    intros ops d d' H. rewrite gen_run_spec in H. revert d d' H.
    induction ops as [|op ops IH]; intros d d' H; simpl in H.
    - injection H as <-. reflexivity.
    - destruct (spec_op f d op) as [[d1 r]|] eqn:E; [|discriminate]. cbn [omap fst] in H.
      rewrite (IH d1 d' H). rewrite (spec_op_mods d op d1 r E).
      assert (Hev : events_of (op :: ops) = events_of [op] ++ events_of ops)
        by (unfold events_of; cbn [flat_map]; rewrite app_nil_r; reflexivity).
      rewrite Hev, fold_left_app. reflexivity.
  Qed.
End Generic.
