(* Event decoder, on the generated generic code for an arbitrary layout implementation (the EvImpl-level
   checks - tables of the compiled crate, recording layout - are in Check/EvImpl.v). *)
From Coq Require Import NArith Arith Bool List Lia.
From PK Require Import Base.Outcome Base.Finite Gen.Types Impl Spec.Event.
From PK Require Export Check.EvImpl.
Import ListNotations.

(* ---------- on the generated generic code, for an arbitrary layout implementation ----------
   Everything is said through the projection EventDecoder_modifiers: nothing here mentions the record's
   constructor, so a decoder that carries further (hidden) fields is covered as it stands. *)
Section Generic.
  Context {L : Type}.
  Variable process : EventDecoder L -> KeyEvent -> outcome (EventDecoder L * option DecodedKey).
  Variable set_mode : EventDecoder L -> HandleControl -> outcome (EventDecoder L * unit).
  Variable set_layout : EventDecoder L -> L -> outcome (EventDecoder L * unit).
  Notation mods := EventDecoder_modifiers.
  (* whenever an operation returns, the modifier record has moved by exactly the abstract step *)
  Hypothesis Hp : forall d ev d' r, process d ev = Ret (d', r) -> mods d' = mods_step (mods d) ev.
  Hypothesis Hm : forall d hc d' u, set_mode d hc = Ret (d', u) -> mods d' = mods d.
  Hypothesis Hl : forall d l d' u, set_layout d l = Ret (d', u) -> mods d' = mods d.

  (* the decoder state after one operation / a sequence of operations (results are C14's business) *)
  Definition gen_op (d : EventDecoder L) (op : ev_op (L:=L)) : outcome (EventDecoder L) :=
    match op with
    | OpEvent ev => omap fst (process d ev)
    | OpMode hc => omap fst (set_mode d hc)
    | OpLayout l => omap fst (set_layout d l)
    end.
  Fixpoint gen_run (d : EventDecoder L) (ops : list (ev_op (L:=L))) : outcome (EventDecoder L) :=
    match ops with
    | [] => Ret d
    | op :: rest => match gen_op d op with Ret d' => gen_run d' rest | Panic => Panic end
    end.

  Lemma gen_op_mods : forall d op d', gen_op d op = Ret d' ->
    mods d' = fold_left mods_step (events_of [op]) (mods d).
  Proof.
    intros d [ev|hc|l] d' H; cbn [gen_op] in H.
    - destruct (process d ev) as [[d1 r]|] eqn:E; [|discriminate]. injection H as <-. exact (Hp d ev d1 r E).
    - destruct (set_mode d hc) as [[d1 u]|] eqn:E; [|discriminate]. injection H as <-. exact (Hm d hc d1 u E).
    - destruct (set_layout d l) as [[d1 u]|] eqn:E; [|discriminate]. injection H as <-. exact (Hl d l d1 u E).
  Qed.

  (* C04 for every layout: whenever a run returns, the reported modifiers are the history's reading *)
  Theorem gen_mods_history : forall ops d d',
    gen_run d ops = Ret d' ->
    mods d' = fold_left mods_step (events_of ops) (mods d).
  Proof.
    induction ops as [|op ops IH]; intros d d' H; cbn [gen_run] in H.
    - injection H as <-. reflexivity.
    - destruct (gen_op d op) as [d1|] eqn:E; [|discriminate].
      rewrite (IH d1 d' H), (gen_op_mods d op d1 E).
      assert (Hev : events_of (op :: ops) = events_of [op] ++ events_of ops)
        by (unfold events_of; cbn [flat_map]; rewrite app_nil_r; reflexivity).
      rewrite Hev, fold_left_app. reflexivity.
  Qed.
End Generic.
