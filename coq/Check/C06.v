(* C06 - bit-serial framing equals whole-word decoding; frames are independent *)
From Coq Require Import NArith Arith Bool List Lia.
From PK Require Import Base.Outcome Base.Finite Base.Machine Gen.Types Impl Spec.Frame Check.Ps2M.
Import ListNotations.
Local Open Scope N_scope.

(* the abstract decoder of Spec/Frame.v as a machine *)
Definition frame_machine : machine bit_op ps_result := {|
  m_st := fstate;
  m_step := fun acc op => Ret (fstep acc op)
|}.

(* all bit lists of length <= n *)
Fixpoint lists_upto (n : nat) : list (list bool) :=
  match n with
  | O => [[]]
  | S k => [] :: flat_map (fun l => [false :: l; true :: l]) (lists_upto k)
  end.
Lemma lists_upto_complete : forall n l, (length l <= n)%nat -> In l (lists_upto n).
Proof.
  induction n as [|n IH]; intros l H.
  - destruct l; [left; reflexivity | simpl in H; lia].
  - destruct l as [|b l]; [left; reflexivity|]. right. apply in_flat_map. exists l. split.
    + apply IH. simpl in H. lia.
    + destruct b; simpl; auto.
Qed.

Definition fvalid (acc : fstate) : bool := Nat.leb (length acc) 10.

(* the implementation state after shifting in the bits of acc from the initial state *)
Definition impl_after (I : Ps2Impl) (acc : fstate) : outcome (ps_st I) :=
  match ps_init I with
  | Ret s0 => final (ps2_machine I) s0 (map Bit acc)
  | Panic => Panic
  end.

Notation closed_C06 I :=
  (closedb (ps2_machine I) frame_machine (ps_eqb I) psres_eqb all_ops fvalid (lists_upto 10) (impl_after I) (fun _ _ => false)).

Notation open_C06 I :=
  (open_cells (ps2_machine I) frame_machine (ps_eqb I) psres_eqb all_ops fvalid (lists_upto 10) (impl_after I) (fun _ _ => false)).

Notation explain_C06 I :=
  (explain_cell (ps2_machine I) frame_machine (ps_eqb I) psres_eqb all_ops (impl_after I) (fun _ _ => false) 14).

Theorem C06_sound (I : Ps2Impl) (s0 : ps_st I) :
  ps_init I = Ret s0 ->
  closed_C06 I = true ->
  forall ops : list bit_op,
    outs (ps2_machine I) s0 ops = outs frame_machine [] ops /\ outs (ps2_machine I) s0 ops <> Panic.
Proof.
  intros Hi Hc ops.
  apply (@bisim_outs _ _ (ps2_machine I) frame_machine (ps_eqb I) (ps_eqb_ok I) psres_eqb psres_eqb_ok all_ops fvalid (lists_upto 10)
           (fun s H => lists_upto_complete 10 s (proj1 (Nat.leb_le _ _) H)) (impl_after I) (fun _ _ => false) (fun _ _ => eq_refl) Hc).
  - apply Forall_forall. intros op _. apply all_ops_complete.
  - reflexivity.
  - unfold impl_after. rewrite Hi. reflexivity.
Qed.

(* --- what the abstract decoder does, proved once on the Spec --- *)

Definition lift_check (w : N) : ps_result := match check w with Ok d => Ok (Some d) | Err e => Err e end.

Lemma frame_run_partial : forall bits acc, (length acc + length bits <= 10)%nat ->
  run frame_machine acc (map Bit bits) = Ret (acc ++ bits, repeat (Ok None) (length bits)).
Proof.
  induction bits as [|b bits IH]; intros acc H; simpl.
  - rewrite app_nil_r. reflexivity.
  - unfold fstep. rewrite app_length. simpl length.
    destruct (Nat.eqb (length acc + 1) 11) eqn:E; [apply Nat.eqb_eq in E; simpl in H; lia|].
    change (run frame_machine (acc ++ [b]) (map Bit bits)) with (run frame_machine (acc ++ [b]) (map Bit bits)).
    rewrite IH by (rewrite app_length; simpl in *; lia).
    rewrite <- app_assoc. reflexivity.
Qed.

(* a whole frame from a frame boundary: ten times "incomplete", then the whole-word verdict,
   and the decoder is at a boundary again *)
Theorem frame_whole : forall bits, length bits = 11%nat ->
  run frame_machine [] (map Bit bits) = Ret ([], repeat (Ok None) 10 ++ [lift_check (word_of_bits bits)]).
Proof.
  intros bits H.
  destruct (exists_last (l:=bits)) as (front & lastb & E); [destruct bits; simpl in H; [lia | discriminate]|].
  subst bits. rewrite app_length in H. simpl in H. rewrite map_app, run_app.
  rewrite frame_run_partial by (simpl; lia). simpl app.
  assert (Hf : length front = 10%nat) by lia. rewrite Hf.
  simpl. unfold fstep. rewrite app_length. simpl length. rewrite Hf. simpl Nat.eqb. cbv iota.
  reflexivity.
Qed.

(* clear at any point, after however many bits, returns to the frame boundary *)
Theorem frame_clear : forall acc, fstep acc Clear = ([], Ok None).
Proof. reflexivity. Qed.

(* the outputs after a history that ends at a frame boundary do not depend on that history *)
Theorem frame_independent : forall pre post osp,
  run frame_machine [] pre = Ret ([], osp) ->
  outs frame_machine [] (pre ++ post) = omap (fun os => osp ++ os) (outs frame_machine [] post).
Proof.
  intros pre post osp H. unfold outs. rewrite run_app, H.
  destruct (run frame_machine [] post) as [[s os]|]; reflexivity.
Qed.
