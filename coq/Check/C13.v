(* C13 - Set 1 and Set 2 decode consistently under the i8042 translation.
   Through both decoders from their initial states; the only table used is the controller's
   translation table (Spec/ScanRef.xlat). *)
From Coq Require Import NArith Arith Bool List Lia.
From PK Require Import Base.Outcome Base.Finite Base.Machine Gen.Types Impl Spec.ScanRef Spec.ScanAuto Spec.Known Check.Scan Check.C19.
Import ListNotations.
Local Open Scope N_scope.

Definition seq_set2 (p : prefix) (brk : bool) (c2 : N) : list N := path2 (p, brk) ++ [c2].
Definition seq_set1 (p : prefix) (brk : bool) (c1 : N) : list N := path1 p ++ [c1 + (if brk then 128 else 0)].

Definition ev_eqb (a b : option (KeyCode * KeyState)) : bool :=
  option_eqb (prod_eqb KeyCode_eqb KeyState_eqb) a b.

(* witnesses as they appear in KNOWN_FINDINGS.txt and in replays:
   direction (0 = Set 2 -> Set 1, 1 = Set 1 -> Set 2), the Set 2 stream, 999, the Set 1 stream *)
Definition wit (dir : N) (s2 s1 : list N) : list N := dir :: s2 ++ [999] ++ s1.
Definition known13 (w : list N) : bool := existsb (list_eqb N.eqb w) known_C13.

Section Two.
  Variables I1 I2 : ScanImpl.

  (* (a) what a Set 2 sequence decodes to, its translation decodes to *)
  Definition ok_a (p : prefix) (brk : bool) (c2 : N) : bool :=
    match xlat c2 with
    | Some c1 =>
        match ev_of (last_out I2 (seq_set2 p brk c2)) with
        | Some (k, st) => is_status_key k || ev_eqb (ev_of (last_out I1 (seq_set1 p brk c1))) (Some (k, st))
        | None => true
        end
    | None => true
    end.
  Definition wit_a (p : prefix) (brk : bool) (c2 : N) : list N :=
    wit 0 (seq_set2 p brk c2) (match xlat c2 with Some c1 => seq_set1 p brk c1 | None => [] end).

  (* (b) what a Set 1 sequence decodes to, some Set 2 preimage decodes to *)
  (* a Notation: the kernel must not be asked to unfold a filter over all bytes during conversion *)
  Notation preimages c1 := (filter (fun c2 => match xlat c2 with Some c => c =? c1 | None => false end) all_bytes).
  Definition ok_b (p : prefix) (brk : bool) (c1 : N) : bool :=
    match ev_of (last_out I1 (seq_set1 p brk c1)) with
    | Some e => existsb (fun c2 => code_position p false c2 && ev_eqb (ev_of (last_out I2 (seq_set2 p brk c2))) (Some e)) (preimages c1)
    | None => true
    end.
  Definition wit_b (p : prefix) (brk : bool) (c1 : N) : list N :=
    wit 1 (match preimages c1 with c2 :: _ => seq_set2 p brk c2 | [] => [] end) (seq_set1 p brk c1).

  Definition dom3 : list (prefix * bool * N) :=
    flat_map (fun p => flat_map (fun brk => map (fun c => (p, brk, c)) all_bytes) all_bool) all_prefix.
  Lemma dom3_complete : forall p brk c, c < 256 -> In (p, brk, c) dom3.
  Proof.
    intros p brk c H. unfold dom3. apply in_flat_map. exists p. split; [apply all_prefix_complete|].
    apply in_flat_map. exists brk. split; [apply all_bool_complete|]. apply in_map. apply all_bytes_complete. exact H.
  Qed.

  Definition bad_a (x : prefix * bool * N) : bool :=
    let '(p, brk, c2) := x in code_position p false c2 && negb (ok_a p brk c2) && negb (known13 (wit_a p brk c2)).
  Definition bad_b (x : prefix * bool * N) : bool :=
    let '(p, brk, c1) := x in (c1 <? 128) && negb (ok_b p brk c1) && negb (known13 (wit_b p brk c1)).
End Two.

Notation cex_a_C13 I1 I2 := (filter (bad_a I1 I2) dom3).
Notation cex_b_C13 I1 I2 := (filter (bad_b I1 I2) dom3).

Section Sound.
  Variables I1 I2 : ScanImpl.
  Hypothesis Ha : cex_a_C13 I1 I2 = [].
  Hypothesis Hb : cex_b_C13 I1 I2 = [].

  Theorem C13_set2_to_set1 : forall p brk c2 c1 k st,
    c2 < 256 -> code_position p false c2 = true -> xlat c2 = Some c1 ->
    known13 (wit_a p brk c2) = false ->
    last_out I2 (seq_set2 p brk c2) = Ret (Ok (Some (KeyEvent_mk k st))) -> is_status_key k = false ->
    ev_of (last_out I1 (seq_set1 p brk c1)) = Some (k, st).
  Proof.
    intros p brk c2 c1 k st Hc Hp Hx Hk H2 Hs.
    pose proof (filter_nil_forall _ _ Ha (p, brk, c2) (dom3_complete p brk c2 Hc)) as H.
    unfold bad_a in H. rewrite Hp, Hk in H. cbn [andb negb] in H. rewrite andb_true_r in H.
    apply negb_false_iff in H. unfold ok_a in H. rewrite Hx, H2 in H.
    cbn [ev_of KeyEvent_code KeyEvent_state] in H. rewrite Hs in H. cbn [orb] in H.
    unfold ev_eqb in H. beq H. exact H.
  Qed.

  Lemma ok_b_all : forall p brk c1, c1 < 128 -> known13 (wit_b p brk c1) = false -> ok_b I1 I2 p brk c1 = true.
  Proof.
    intros p brk c1 Hc Hk.
    assert (Hc' : c1 < 256) by lia.
    pose proof (filter_nil_forall _ _ Hb (p, brk, c1) (dom3_complete p brk c1 Hc')) as H.
    unfold bad_b in H. rewrite (proj2 (N.ltb_lt _ _) Hc), Hk in H. cbn [andb negb] in H. rewrite andb_true_r in H.
    apply negb_false_iff in H. exact H.
  Qed.

  Lemma existsb_filter_ex {A} (f g : A -> bool) l : existsb f (filter g l) = true -> exists x, In x l /\ g x = true /\ f x = true.
  Proof.
    intros H. apply existsb_exists in H. destruct H as (x & Hin & Hf). apply filter_In in Hin. destruct Hin as [Hin Hg].
    exists x. auto.
  Qed.
  Lemma ok_b_prop : forall p brk c1 e,
    c1 < 128 -> known13 (wit_b p brk c1) = false ->
    ev_of (last_out I1 (seq_set1 p brk c1)) = Some e ->
    exists c2, In c2 all_bytes /\ match xlat c2 with Some c => c =? c1 | None => false end = true /\
      code_position p false c2 && ev_eqb (ev_of (last_out I2 (seq_set2 p brk c2))) (Some e) = true.
  Proof.
    intros p brk c1 e Hc Hk H1.
    pose proof (ok_b_all p brk c1 Hc Hk) as H.
    unfold ok_b in H. rewrite H1 in H.
    exact (existsb_filter_ex _ _ _ H).
  Qed.

  Theorem C13_set1_to_set2 : forall p brk c1 k st,
    c1 < 128 -> known13 (wit_b p brk c1) = false ->
    last_out I1 (seq_set1 p brk c1) = Ret (Ok (Some (KeyEvent_mk k st))) ->
    exists c2, c2 < 256 /\ xlat c2 = Some c1 /\ code_position p false c2 = true /\
               ev_of (last_out I2 (seq_set2 p brk c2)) = Some (k, st).
  Proof.
    intros p brk c1 k st Hc Hk H1.
    assert (E : ev_of (last_out I1 (seq_set1 p brk c1)) = Some (k, st)) by (rewrite H1; reflexivity).
    destruct (ok_b_prop p brk c1 (k, st) Hc Hk E) as (c2 & Hin & Hx & H).
    apply andb_prop in H. destruct H as [Hp He].
    exists c2. split; [exact (all_below_In 256 c2 Hin)|]. split.
    - destruct (xlat c2) as [c|]; [|discriminate]. apply N.eqb_eq in Hx. congruence.
    - split; [exact Hp|]. unfold ev_eqb in He. beq He. exact He.
  Qed.
End Sound.
