(* C05 - PS/2 frames: accepted iff start=0, stop=1, odd parity; yield the data byte *)
From Coq Require Import NArith Arith Bool List Lia.
From PK Require Import Base.Outcome Base.Finite Gen.Types Impl Spec.Frame.
Import ListNotations.
Local Open Scope N_scope.

Definition res_eqb : Result N Error -> Result N Error -> bool := Result_eqb N.eqb Error_eqb.
Lemma ores_eqb_spec : forall a b, reflect (a = b) (outcome_eqb res_eqb a b).
Proof. apply outcome_eqb_spec. apply Result_eqb_spec; [apply N_eqb_spec | apply Error_eqb_spec]. Qed.

(* words below 2048 on which whole-word decoding (from state s) is not what the Spec says *)
Definition bad_C05 (I : Ps2Impl) (s : ps_st I) (w : N) : bool :=
  negb (outcome_eqb res_eqb (ps_add_word I s w) (Ret (check w))).
(* a Notation, not a constant: the kernel must never be asked to unfold [filter] over a large list
   during conversion (see DESIGN.md, implementation notes) *)
Notation cex_C05 I s := (filter (bad_C05 I s) (all_below 2048)).

Lemma C05_sound_gen (I : Ps2Impl) (s0 : ps_st I) (n : N) :
  (forall s w, ps_add_word I s w = ps_add_word I s0 w) ->
  filter (bad_C05 I s0) (all_below n) = [] ->
  forall s w, w < n -> ps_add_word I s w = Ret (check w).
Proof.
  intros Hind Hc s w Hw. rewrite Hind.
  pose proof (filter_nil_forall _ _ Hc w (all_below_complete n w Hw)) as H.
  unfold bad_C05 in H. destruct (ores_eqb_spec (ps_add_word I s0 w) (Ret (check w))) as [E|E]; [exact E | discriminate H].
Qed.

Theorem C05_sound (I : Ps2Impl) (s0 : ps_st I) :
  (forall s w, ps_add_word I s w = ps_add_word I s0 w) ->
  cex_C05 I s0 = [] ->
  forall s w, w < 2048 -> ps_add_word I s w = Ret (check w).
Proof. intros Hind Hc. exact (C05_sound_gen I s0 2048 Hind Hc). Qed.

(* consequences, on the Spec alone (the bounds are the types' own: bytes, bit positions 0..10) *)
Theorem frame_roundtrip : forall b, b < 256 -> check (encode b) = Ok b.
Proof.
  intros b Hb. pose proof roundtrip_b as H. unfold all_bytes_ in H.
  rewrite forallb_forall in H. specialize (H b (all_below_complete 256 b Hb)).
  destruct (check (encode b)) as [d|]; [|discriminate]. apply N.eqb_eq in H. congruence.
Qed.

Theorem single_bit_corruption_rejected : forall b i, b < 256 -> i < 11 ->
  exists e, check (flip (encode b) i) = Err e.
Proof.
  intros b i Hb Hi. pose proof single_flip_rejected_b as H. rewrite forallb_forall in H.
  specialize (H b (all_below_complete 256 b Hb)). rewrite forallb_forall in H.
  specialize (H i (all_below_complete 11 i Hi)). unfold accepted in H. unfold check.
  set (w := flip (encode b) i) in *. clearbody w.
  destruct (fbit w 0); [eauto|]. destruct (fbit w 10); cbn [negb andb] in *; [|eauto].
  destruct (odd_ones w); [discriminate | eauto].
Qed.
