(* C01 - Set 2 byte streams decode to exactly the standard key events *)
From Coq Require Import NArith Bool List Lia.
From PK Require Import Base.Outcome Base.Finite Base.Machine Gen.Types Impl Spec.ScanRef Spec.ScanAuto Check.Scan.
Import ListNotations.
Local Open Scope N_scope.

Notation closed_C01 I :=
  (closedb (scan_machine I) auto2 (sc_eqb I) scres_eqb all_bytes (fun _ => true) all_ctx2
           (fun x => sc_after I (path2 x)) (fun _ _ => false)).
Notation open_C01 I :=
  (open_cells (scan_machine I) auto2 (sc_eqb I) scres_eqb all_bytes (fun _ => true) all_ctx2
              (fun x => sc_after I (path2 x)) (fun _ _ => false)).
Notation explain_C01 I :=
  (explain_cell (scan_machine I) auto2 (sc_eqb I) scres_eqb all_bytes (fun x => sc_after I (path2 x)) (fun _ _ => false) 6).

(* the same search over a small alphabet chosen for the cell: the prefix bytes, the bytes that lead to the
   cell and a few ordinary codes - a decoder with hidden state (a memo keyed on the last code, a pending
   flag) differs on continuations that reuse those bytes, and over all 256 bytes the search frontier
   would have to be cut off long before it reaches them *)
Definition focus2 (c : ctx2 * N) : list N :=
  [0xE0; 0xE1; 0xF0; snd c] ++ path2 (fst c) ++ [0x1C; 0x12; 0x14; 0xAA; 0x00; 0xFA].
Notation explain_focus_C01 I c :=
  (explain_cell (scan_machine I) auto2 (sc_eqb I) scres_eqb (focus2 c) (fun x => sc_after I (path2 x)) (fun _ _ => false) 5 c).
Notation explain_wide_C01 I c :=
  (explain_cell (scan_machine I) auto2 (sc_eqb I) scres_eqb all_bytes (fun x => sc_after I (path2 x)) (fun _ _ => false) 2 c).

Theorem C01_sound (I : ScanImpl) (s0 : sc_st I) :
  sc_init I = Ret s0 ->
  closed_C01 I = true ->
  forall bs, Forall byte bs ->
    outs (scan_machine I) s0 bs = outs auto2 ctx2_init bs /\ outs (scan_machine I) s0 bs <> Panic.
Proof.
  intros Hi Hc bs Hb.
  apply (@bisim_outs _ _ (scan_machine I) auto2 (sc_eqb I) (sc_eqb_ok I) scres_eqb scres_eqb_ok all_bytes (fun _ => true) all_ctx2
           (fun s _ => all_ctx2_complete s) (fun x => sc_after I (path2 x)) (fun _ _ => false) (fun _ _ => eq_refl) Hc).
  - apply bytes_in. exact Hb.
  - reflexivity.
  - unfold sc_after. rewrite Hi. reflexivity.
Qed.

(* --- consequences, proved once on the automaton --- *)

(* a well-formed sequence: optional E0/E1, optional F0, one code byte *)
Definition seq2 (p : prefix) (brk : bool) (c : N) : list N := path2 (p, brk) ++ [c].

Lemma seq2_run_b :
  forallb (fun p => forallb (fun brk => forallb (fun c =>
     implb (code_position p brk c)
           (outcome_eqb (prod_eqb ctx2_eqb (list_eqb scres_eqb))
              (run auto2 ctx2_init (seq2 p brk c))
              (Ret (ctx2_init, repeat (Ok None) (length (path2 (p, brk))) ++ [code2 p brk c]))))
     all_bytes) all_bool) all_prefix = true.
Proof. vm_compute. reflexivity. Qed.

Theorem set2_sequence : forall p brk c, c < 256 -> code_position p brk c = true ->
  run auto2 ctx2_init (seq2 p brk c) =
  Ret (ctx2_init, repeat (Ok None) (length (path2 (p, brk))) ++ [code2 p brk c]).
Proof.
  intros p brk c Hc Hp. pose proof seq2_run_b as H.
  pose proof (forallb_complete _ _ all_prefix_complete H p) as H1. cbv beta in H1.
  pose proof (forallb_complete _ _ all_bool_complete H1 brk) as H2. cbv beta in H2.
  rewrite forallb_forall in H2. specialize (H2 c (all_bytes_complete c Hc)). rewrite Hp in H2. simpl implb in H2.
  beq H2. exact H2.
Qed.
