(* Scancode decoders as machines over bytes; shared definitions for C01, C02, C07, C13, C19. *)
From Coq Require Import NArith Bool List Lia.
From PK Require Import Base.Outcome Base.Finite Base.Machine Gen.Types Impl Spec.ScanRef Spec.ScanAuto.
Import ListNotations.
Local Open Scope N_scope.

Definition scan_machine (I : ScanImpl) : machine N sc_result := {| m_st := sc_st I; m_step := sc_step I |}.

Definition scres_eqb : sc_result -> sc_result -> bool := Result_eqb (option_eqb KeyEvent_eqb) Error_eqb.
#[global] Instance scres_eqb_ok : EqbSpec scres_eqb.
Proof. unfold scres_eqb. typeclasses eauto. Qed.

Definition byte (b : N) : Prop := b < 256.
Lemma bytes_in : forall bs, Forall byte bs -> Forall (fun b => In b all_bytes) bs.
Proof. intros bs H. eapply Forall_impl; [|exact H]. intros b Hb. apply all_bytes_complete. exact Hb. Qed.

(* the implementation state after feeding `path` from the initial state *)
Definition sc_after (I : ScanImpl) (path : list N) : outcome (sc_st I) :=
  match sc_init I with
  | Ret s0 => final (scan_machine I) s0 path
  | Panic => Panic
  end.

Definition ctx2_eqb (a b : ctx2) : bool := prefix_eqb (fst a) (fst b) && Bool.eqb (snd a) (snd b).
#[global] Instance ctx2_eqb_ok : EqbSpec ctx2_eqb.
Proof.
  intros [p a] [q b]; unfold ctx2_eqb; simpl.
  destruct (prefix_eqb_spec p q); simpl; [|constructor; congruence].
  destruct (bool_eqb_spec a b); constructor; congruence.
Qed.

(* evaluate something at the implementation's own initial state (whatever its representation is) *)
Definition at_init {A : Type} (I : ScanImpl) (d : A) (k : sc_st I -> A) : A :=
  match sc_init I with Ret s => k s | Panic => d end.
Lemma at_init_elim : forall (A : Type) (I : ScanImpl) (d : A) (k : sc_st I -> A) s0,
  sc_init I = Ret s0 -> at_init I d k = k s0.
Proof. intros A I d k s0 H. unfold at_init. rewrite H. reflexivity. Qed.
