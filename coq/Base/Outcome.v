(* Outcome monad: the result of running translated Rust code is a value or a panic. *)
From Coq Require Import NArith Bool List.
Import ListNotations.

Inductive outcome (A : Type) : Type :=
| Ret (a : A)
| Panic.
Arguments Ret {A} a.
Arguments Panic {A}.

Definition obind {A B : Type} (m : outcome A) (f : A -> outcome B) : outcome B :=
  match m with Ret a => f a | Panic => Panic end.

Definition omap {A B : Type} (f : A -> B) (m : outcome A) : outcome B :=
  match m with Ret a => Ret (f a) | Panic => Panic end.

Definition is_ret {A : Type} (m : outcome A) : bool :=
  match m with Ret _ => true | Panic => false end.

(* Rust's Result; Option is Coq's option. *)
Inductive Result (T E : Type) : Type :=
| Ok (t : T)
| Err (e : E).
Arguments Ok {T E} t.
Arguments Err {T E} e.

Definition option_eqb {A : Type} (eqb : A -> A -> bool) (a b : option A) : bool :=
  match a, b with
  | Some x, Some y => eqb x y
  | None, None => true
  | _, _ => false
  end.

Definition Result_eqb {T E : Type} (teqb : T -> T -> bool) (eeqb : E -> E -> bool) (a b : Result T E) : bool :=
  match a, b with
  | Ok x, Ok y => teqb x y
  | Err x, Err y => eeqb x y
  | _, _ => false
  end.

Definition outcome_eqb {A : Type} (eqb : A -> A -> bool) (a b : outcome A) : bool :=
  match a, b with
  | Ret x, Ret y => eqb x y
  | Panic, Panic => true
  | _, _ => false
  end.

Definition prod_eqb {A B : Type} (ea : A -> A -> bool) (eb : B -> B -> bool) (x y : A * B) : bool :=
  ea (fst x) (fst y) && eb (snd x) (snd y).

Definition unit_eqb (_ _ : unit) : bool := true.

Fixpoint list_eqb {A : Type} (eqb : A -> A -> bool) (a b : list A) : bool :=
  match a, b with
  | [], [] => true
  | x :: a', y :: b' => eqb x y && list_eqb eqb a' b'
  | _, _ => false
  end.

Lemma option_eqb_spec {A} (eqb : A -> A -> bool) :
  (forall x y, reflect (x = y) (eqb x y)) -> forall a b, reflect (a = b) (option_eqb eqb a b).
Proof.
  intros H [x|] [y|]; simpl; try (constructor; congruence).
  destruct (H x y); constructor; congruence.
Qed.

Lemma Result_eqb_spec {T E} (teqb : T -> T -> bool) (eeqb : E -> E -> bool) :
  (forall x y, reflect (x = y) (teqb x y)) -> (forall x y, reflect (x = y) (eeqb x y)) ->
  forall a b, reflect (a = b) (Result_eqb teqb eeqb a b).
Proof.
  intros H1 H2 [x|x] [y|y]; simpl; try (constructor; congruence).
  - destruct (H1 x y); constructor; congruence.
  - destruct (H2 x y); constructor; congruence.
Qed.

Lemma outcome_eqb_spec {A} (eqb : A -> A -> bool) :
  (forall x y, reflect (x = y) (eqb x y)) -> forall a b, reflect (a = b) (outcome_eqb eqb a b).
Proof.
  intros H [x|] [y|]; simpl; try (constructor; congruence).
  destruct (H x y); constructor; congruence.
Qed.

Lemma prod_eqb_spec {A B} (ea : A -> A -> bool) (eb : B -> B -> bool) :
  (forall x y, reflect (x = y) (ea x y)) -> (forall x y, reflect (x = y) (eb x y)) ->
  forall a b, reflect (a = b) (prod_eqb ea eb a b).
Proof.
  intros H1 H2 [a1 a2] [b1 b2]; unfold prod_eqb; simpl.
  destruct (H1 a1 b1), (H2 a2 b2); simpl; constructor; congruence.
Qed.

Lemma list_eqb_spec {A} (eqb : A -> A -> bool) :
  (forall x y, reflect (x = y) (eqb x y)) -> forall a b, reflect (a = b) (list_eqb eqb a b).
Proof.
  intros H a. induction a as [|x a IH]; intros [|y b]; simpl; try (constructor; congruence).
  destruct (H x y); simpl; [|constructor; congruence].
  destruct (IH b); constructor; congruence.
Qed.

Lemma unit_eqb_spec : forall a b : unit, reflect (a = b) (unit_eqb a b).
Proof. intros [] []; constructor; reflexivity. Qed.

Lemma N_eqb_spec : forall a b : N, reflect (a = b) (N.eqb a b).
Proof. intros a b; destruct (N.eqb_spec a b); constructor; assumption. Qed.

Lemma bool_eqb_spec : forall a b : bool, reflect (a = b) (Bool.eqb a b).
Proof. intros [] []; simpl; constructor; congruence. Qed.

Lemma reflect_eq_true {P b} : reflect P b -> b = true -> P.
Proof. intros [H|H] E; [exact H | discriminate]. Qed.

Lemma reflect_eq_false {P b} : reflect P b -> b = false -> ~ P.
Proof. intros [H|H] E; [discriminate | exact H]. Qed.

Lemma reflect_refl {A} (eqb : A -> A -> bool) :
  (forall x y, reflect (x = y) (eqb x y)) -> forall x, eqb x x = true.
Proof. intros H x; destruct (H x x); [reflexivity | congruence]. Qed.
