(* Checked fixed-width unsigned arithmetic, as rustc emits it with overflow checks on. *)
From Coq Require Import NArith Bool List.
From PK Require Import Base.Outcome.
Local Open Scope N_scope.

Definition chk_add (w a b : N) : outcome N := let r := a + b in if r <? 2 ^ w then Ret r else Panic.
Definition chk_sub (w a b : N) : outcome N := if b <=? a then Ret (a - b) else Panic.
Definition chk_mul (w a b : N) : outcome N := let r := a * b in if r <? 2 ^ w then Ret r else Panic.
Definition chk_div (w a b : N) : outcome N := if b =? 0 then Panic else Ret (a / b).
Definition chk_rem (w a b : N) : outcome N := if b =? 0 then Panic else Ret (a mod b).
(* shifts panic when the amount is >= the width; bits shifted out are dropped *)
Definition chk_shl (w a n : N) : outcome N := if n <? w then Ret (N.land (N.shiftl a n) (N.ones w)) else Panic.
Definition chk_shr (w a n : N) : outcome N := if n <? w then Ret (N.shiftr a n) else Panic.

Definition trunc (w a : N) : N := N.land a (N.ones w).
Definition bitnot (w a : N) : N := N.lxor a (N.ones w).
Definition wrap_add (w a b : N) : N := trunc w (a + b).
Definition wrap_sub (w a b : N) : N := trunc w (a + 2 ^ w - b).

Fixpoint pos_popcount (p : positive) : N :=
  match p with
  | xH => 1
  | xO q => pos_popcount q
  | xI q => N.succ (pos_popcount q)
  end.
Definition popcount (a : N) : N := match a with N0 => 0 | Npos p => pos_popcount p end.

(* indexing a fixed-size array: out of bounds panics *)
Definition arr_index {A} (l : list A) (i : N) : outcome A :=
  match nth_error l (N.to_nat i) with Some x => Ret x | None => Panic end.

(* ASCII helpers of char / u8 *)
Definition is_ascii_lowercase (c : N) : bool := (97 <=? c) && (c <=? 122).
Definition is_ascii_uppercase (c : N) : bool := (65 <=? c) && (c <=? 90).
Definition is_ascii_alphabetic (c : N) : bool := is_ascii_lowercase c || is_ascii_uppercase c.
Definition is_ascii_digit (c : N) : bool := (48 <=? c) && (c <=? 57).
Definition ascii_upper (c : N) : N := if is_ascii_lowercase c then c - 32 else c.
Definition ascii_lower (c : N) : N := if is_ascii_uppercase c then c + 32 else c.
