(* Control monad for translated function bodies: mutable `self` (state S), early exit with the
   function's result (R) through `return` and `?`, and panics. *)
From Coq Require Import NArith Bool List.
From PK Require Import Base.Outcome.

Inductive cres (S R A : Type) : Type :=
| CNext (s : S) (a : A)
| CExit (s : S) (r : R)
| CPanic.
Arguments CNext {S R A} s a.
Arguments CExit {S R A} s r.
Arguments CPanic {S R A}.

Definition ctl (S R A : Type) : Type := S -> cres S R A.

Definition cret {S R A} (a : A) : ctl S R A := fun s => CNext s a.
Definition cbind {S R A B} (m : ctl S R A) (f : A -> ctl S R B) : ctl S R B :=
  fun s => match m s with
           | CNext s' a => f a s'
           | CExit s' r => CExit s' r
           | CPanic => CPanic
           end.
Definition cget {S R} : ctl S R S := fun s => CNext s s.
Definition cput {S R} (s' : S) : ctl S R unit := fun _ => CNext s' tt.
Definition cexit {S R A} (r : R) : ctl S R A := fun s => CExit s r.
Definition cpanic {S R A} : ctl S R A := fun _ => CPanic.

(* call a function that does not touch our state *)
Definition call {S R A} (m : outcome A) : ctl S R A :=
  fun s => match m with Ret a => CNext s a | Panic => CPanic end.

(* call a `&mut self` method on a part of our state; `put` writes the part back *)
Definition call_mut {S R F A} (m : outcome (F * A)) (put : F -> S -> S) : ctl S R A :=
  fun s => match m with Ret (f, a) => CNext (put f s) a | Panic => CPanic end.

(* the `?` operator *)
Definition ctry {S T U E A} (r : Result T E) (k : T -> ctl S (Result U E) A) : ctl S (Result U E) A :=
  match r with Ok t => k t | Err e => cexit (Err e) end.
Definition ctry_opt {S T U A} (r : option T) (k : T -> ctl S (option U) A) : ctl S (option U) A :=
  match r with Some t => k t | None => cexit None end.

Definition cassert {S R} (b : bool) : ctl S R unit := if b then cret tt else cpanic.

Definition run_mut {S R} (m : ctl S R R) (s : S) : outcome (S * R) :=
  match m s with
  | CNext s' r => Ret (s', r)
  | CExit s' r => Ret (s', r)
  | CPanic => Panic
  end.

Definition run_fn {R} (m : ctl unit R R) : outcome R :=
  match m tt with
  | CNext _ r => Ret r
  | CExit _ r => Ret r
  | CPanic => Panic
  end.

Declare Scope ctl_scope.
Delimit Scope ctl_scope with ctl.
Notation "x <- m ;; k" := (cbind m (fun x => k))
  (at level 61, m at next level, right associativity) : ctl_scope.
Open Scope ctl_scope.
