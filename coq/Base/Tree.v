(* Reduced ordered decision trees: the exchange format for the implementation tables (G_ext). *)
From Coq Require Import NArith Bool List.
Import ListNotations.
Local Open Scope N_scope.

Inductive tree (A : Type) : Type :=
| Leaf (a : A)
| Node (v : N) (lo hi : tree A).
Arguments Leaf {A} a.
Arguments Node {A} v lo hi.

(* [bit v] is the value of boolean variable v *)
Fixpoint teval {A} (bit : N -> bool) (t : tree A) : A :=
  match t with
  | Leaf a => a
  | Node v lo hi => if bit v then teval bit hi else teval bit lo
  end.

Fixpoint tsize {A} (t : tree A) : N :=
  match t with Leaf _ => 1 | Node _ lo hi => 1 + tsize lo + tsize hi end.

(* leaves of the event-decoder tables *)
Inductive bleaf : Type := BT | BF | BP | BX.            (* true, false, panic, unreachable state *)
Definition idt (j : N) : tree bleaf := Node j (Leaf BF) (Leaf BT).

Section R.
  Variable K : Type.
  Inductive rleaf_ : Type :=
  | RNone | RExact | RRaw (k : K) | RCons (k : K) (mods mode : N) | RUni (c : N) | RP | RX.
End R.
Arguments RNone {K}. Arguments RExact {K}. Arguments RRaw {K} k. Arguments RCons {K} k mods mode.
Arguments RUni {K} c. Arguments RP {K}. Arguments RX {K}.
