(* Step-level consequences of the closure check of Base/Machine.v, and a generic forward simulation:
   used where a machine is interleaved with others (the whole-driver refinement), so that the run-level
   theorems of Machine.v do not apply directly. *)
From Coq Require Import NArith Arith Bool List Lia.
From PK Require Import Base.Outcome Base.Finite Base.Machine.
Import ListNotations.

Section ClosedStep.
  Context {Inp Out : Type} (M1 M2 : machine Inp Out).
  Variable eqb1 : m_st M1 -> m_st M1 -> bool.
  Context `{E1 : EqbSpec _ eqb1}.
  Variable oeqb : Out -> Out -> bool.
  Context `{EO : EqbSpec _ oeqb}.
  Variable all_in : list Inp.
  Variable validb : m_st M2 -> bool.
  Variable all2 : list (m_st M2).
  Hypothesis all2_complete : forall s, validb s = true -> In s all2.
  Variable f : m_st M2 -> outcome (m_st M1).
  Variable exc : m_st M2 -> Inp -> bool.

  (* one step of the simulation that the closure check establishes *)
  Lemma closed_step : closedb M1 M2 eqb1 oeqb all_in validb all2 f exc = true ->
    forall s2 s1 i, validb s2 = true -> f s2 = Ret s1 -> In i all_in ->
    exists s2' o2 s1' o1,
      m_step M2 s2 i = Ret (s2', o2) /\ m_step M1 s1 i = Ret (s1', o1) /\
      (exc s2 i = false -> o1 = o2) /\ validb s2' = true /\ f s2' = Ret s1'.
  Proof.
    intros Hc s2 s1 i Hv Hf Hi.
    unfold closedb in Hc. rewrite forallb_forall in Hc.
    pose proof (Hc s2 (all2_complete s2 Hv)) as Hs. unfold closed_at in Hs. rewrite Hf in Hs.
    rewrite forallb_forall in Hs. specialize (Hs i Hi). unfold step_ok in Hs.
    destruct (m_step M2 s2 i) as [[s2' o2]|] eqn:E2; [|discriminate].
    destruct (m_step M1 s1 i) as [[s1' o1]|] eqn:E1'; [|discriminate].
    apply andb_prop in Hs as [Hs Hf']. apply andb_prop in Hs as [Ho Hv'].
    destruct (f s2') as [s1''|] eqn:Ef; [|discriminate].
    apply (reflect_eq_true (eqb_spec_pf (f:=eqb1) _ _)) in Hf'. subst s1''.
    exists s2', o2, s1', o1. repeat split; try assumption.
    intros Hx. rewrite Hx in Ho. simpl in Ho.
    exact (reflect_eq_true (eqb_spec_pf (f:=oeqb) _ _) Ho).
  Qed.
End ClosedStep.

(* Forward simulation between two machines under a relation R, for inputs that the second machine
   admits ([ok], checked along its own run): equal outputs, panics included. *)
Section Sim.
  Context {Inp Out : Type} (M1 M2 : machine Inp Out).
  Variable R : m_st M1 -> m_st M2 -> Prop.
  Variable ok : m_st M2 -> Inp -> Prop.

  Fixpoint oks (s2 : m_st M2) (is : list Inp) : Prop :=
    match is with
    | [] => True
    | i :: rest => ok s2 i /\ forall s2' o, m_step M2 s2 i = Ret (s2', o) -> oks s2' rest
    end.

  Hypothesis Hstep : forall s1 s2 i, R s1 s2 -> ok s2 i ->
    match m_step M1 s1 i, m_step M2 s2 i with
    | Ret (s1', o1), Ret (s2', o2) => o1 = o2 /\ R s1' s2'
    | Panic, Panic => True
    | _, _ => False
    end.

  Theorem sim_run : forall is s1 s2, R s1 s2 -> oks s2 is ->
    match run M1 s1 is, run M2 s2 is with
    | Ret (s1', os1), Ret (s2', os2) => os1 = os2 /\ R s1' s2'
    | Panic, Panic => True
    | _, _ => False
    end.
  Proof.
    induction is as [|i is IH]; intros s1 s2 HR Hok; simpl.
    - auto.
    - destruct Hok as [Hi Hrest]. pose proof (Hstep s1 s2 i HR Hi) as H.
      destruct (m_step M1 s1 i) as [[s1' o1]|], (m_step M2 s2 i) as [[s2' o2]|]; try contradiction; [|exact I].
      destruct H as [-> HR']. specialize (IH s1' s2' HR' (Hrest s2' o2 eq_refl)).
      destruct (run M1 s1' is) as [[t1 os1]|], (run M2 s2' is) as [[t2 os2]|]; try contradiction; [|exact I].
      destruct IH as [-> HR'']. auto.
  Qed.

  Corollary sim_outs : forall is s1 s2, R s1 s2 -> oks s2 is -> outs M1 s1 is = outs M2 s2 is.
  Proof.
    intros is s1 s2 HR Hok. pose proof (sim_run is s1 s2 HR Hok) as H. unfold outs.
    destruct (run M1 s1 is) as [[t1 os1]|], (run M2 s2 is) as [[t2 os2]|]; try contradiction; [|reflexivity].
    destruct H as [-> _]. reflexivity.
  Qed.

  (* when every input is admitted in every state *)
  Lemma oks_all : (forall s i, ok s i) -> forall is s, oks s is.
  Proof. intros H. induction is as [|i is IH]; intros s; simpl; auto. Qed.
End Sim.
