(* Reachable-state invariants for machines with MANY states (tens of thousands): the candidate set is kept
   in buckets of a binary trie indexed by a key function, so that membership is logarithmic instead of a
   scan of the whole list (Base/Machine.v's [explore]/[inv_closed] are quadratic).  Any key function is
   sound - it only decides which bucket is searched; elements are compared with the boolean equality. *)
From Coq Require Import NArith PArith Arith Bool List Lia FMapPositive.
From PK Require Import Base.Outcome Base.Finite Base.Machine.
Import ListNotations.

Section ReachK.
  Context {Inp Out : Type} (M : machine Inp Out).
  Variable eqb : m_st M -> m_st M -> bool.
  Variable key : m_st M -> N.
  Variable all_in : list Inp.

  Definition buckets : Type := PositiveMap.t (list (m_st M)).
  Definition pkey (s : m_st M) : positive := N.succ_pos (key s).

  Definition kmem (s : m_st M) (m : buckets) : bool :=
    match PositiveMap.find (pkey s) m with
    | Some l => existsb (eqb s) l
    | None => false
    end.
  Definition kadd (s : m_st M) (m : buckets) : buckets :=
    PositiveMap.add (pkey s) (s :: match PositiveMap.find (pkey s) m with Some l => l | None => [] end) m.

  (* one breadth-first round: the successors of the frontier that are new *)
  Definition kround (seen : buckets) (frontier : list (m_st M)) : buckets * list (m_st M) :=
    fold_left (fun (acc : buckets * list (m_st M)) s =>
      fold_left (fun (acc : buckets * list (m_st M)) i =>
        match m_step M s i with
        | Ret (s', _) => if kmem s' (fst acc) then acc else (kadd s' (fst acc), s' :: snd acc)
        | Panic => acc
        end) all_in acc) frontier (seen, []).

  (* bounded exploration; [limit] caps the number of states collected (the result is only a candidate set) *)
  Fixpoint kexplore (fuel : nat) (limit : N) (seen : buckets) (count : N) (frontier : list (m_st M)) : buckets :=
    match fuel with
    | O => seen
    | S f =>
        match kround seen frontier with
        | (seen', []) => seen'
        | (seen', next) =>
            let count' := (count + N.of_nat (length next))%N in
            if (limit <? count')%N then seen' else kexplore f limit seen' count' next
        end
    end.
  Definition kstates (fuel : nat) (limit : N) (init : m_st M) : buckets :=
    kexplore fuel limit (kadd init (PositiveMap.empty _)) 1 [init].

  Definition kall (m : buckets) : list (m_st M) := flat_map snd (PositiveMap.elements m).
  Definition ksize (m : buckets) : N := N.of_nat (length (kall m)).

  Definition kinv_closed (m : buckets) (init : m_st M) : bool :=
    kmem init m &&
    forallb (fun s => forallb (fun i => match m_step M s i with Ret (s', _) => kmem s' m | Panic => false end) all_in) (kall m).

  (* transitions out of the candidate set that panic or leave it (the search for a failing input) *)
  Definition kopen (m : buckets) : list (m_st M * Inp) :=
    flat_map (fun s => map (fun i => (s, i))
      (filter (fun i => match m_step M s i with Ret (s', _) => negb (kmem s' m) | Panic => true end) all_in)) (kall m).

  (* breadth-first search for a shortest input sequence whose last transition satisfies [bad]
     (a panic, an output that should not be there, ...) *)
  Section Find.
    Variable bad : m_st M -> Inp -> outcome (m_st M * Out) -> bool.
    Definition kfround (seen : buckets) (frontier : list (m_st M * list Inp))
        : option (list Inp) * buckets * list (m_st M * list Inp) :=
      fold_left (fun (acc : option (list Inp) * buckets * list (m_st M * list Inp)) sp =>
        fold_left (fun (acc : option (list Inp) * buckets * list (m_st M * list Inp)) i =>
          let '(found, seen, next) := acc in
          match found with
          | Some _ => acc
          | None =>
              let r := m_step M (fst sp) i in
              if bad (fst sp) i r then (Some (rev (i :: snd sp)), seen, next)
              else match r with
                   | Ret (s', _) => if kmem s' seen then acc else (None, kadd s' seen, (s', i :: snd sp) :: next)
                   | Panic => acc
                   end
          end) all_in acc) frontier (None, seen, []).
    Fixpoint kfind_from (fuel : nat) (limit : N) (seen : buckets) (count : N) (frontier : list (m_st M * list Inp)) : option (list Inp) :=
      match fuel with
      | O => None
      | S f =>
          match kfround seen frontier with
          | (Some p, _, _) => Some p
          | (None, _, []) => None
          | (None, seen', next) =>
              let count' := (count + N.of_nat (length next))%N in
              if (limit <? count')%N then None else kfind_from f limit seen' count' next
          end
      end.
    Definition kfind (fuel : nat) (limit : N) (init : m_st M) : option (list Inp) :=
      kfind_from fuel limit (kadd init (PositiveMap.empty _)) 1 [(init, [])].
  End Find.
  Definition kfind_panic (fuel : nat) (limit : N) (init : m_st M) : option (list Inp) :=
    kfind (fun _ _ r => match r with Panic => true | Ret _ => false end) fuel limit init.

  Context `{E : EqbSpec _ eqb}.

  Definition InK (s : m_st M) (m : buckets) : Prop := In s (kall m).

  Lemma kmem_InK : forall s m, kmem s m = true -> InK s m.
  Proof.
    intros s m H. unfold kmem in H. destruct (PositiveMap.find (pkey s) m) as [l|] eqn:F; [|discriminate].
    apply existsb_exists in H as (x & Hx & Hq). beq Hq. subst x.
    unfold InK, kall. apply in_flat_map. exists (pkey s, l). split; [|exact Hx].
    apply PositiveMap.elements_correct. exact F.
  Qed.

  Theorem kreach_inv : forall m init, kinv_closed m init = true ->
    forall is, Forall (fun i => In i all_in) is ->
    forall s, InK s m -> exists s' os, run M s is = Ret (s', os) /\ InK s' m.
  Proof.
    intros m init Hc is Hall. apply andb_prop in Hc as [_ Hc]. rewrite forallb_forall in Hc.
    induction Hall as [|i is Hi Hall IH]; intros s Hs.
    - exists s, []. simpl. auto.
    - pose proof (Hc s Hs) as H. rewrite forallb_forall in H. specialize (H i Hi).
      destruct (m_step M s i) as [[s1 o]|] eqn:E1; [|discriminate].
      apply kmem_InK in H. destruct (IH s1 H) as (s' & os & R & Hin).
      exists s', (o :: os). simpl. rewrite E1, R. auto.
  Qed.

  Lemma kinv_closed_step : forall m init, kinv_closed m init = true ->
    forall s i, InK s m -> In i all_in -> exists s' o, m_step M s i = Ret (s', o) /\ InK s' m.
  Proof.
    intros m init Hc s i Hs Hi. apply andb_prop in Hc as [_ Hc]. rewrite forallb_forall in Hc.
    specialize (Hc s Hs). rewrite forallb_forall in Hc. specialize (Hc i Hi).
    destruct (m_step M s i) as [[s' o]|]; [|discriminate].
    exists s', o. split; [reflexivity|]. apply kmem_InK. exact Hc.
  Qed.

  (* the same as a plain list, for clients that should never look inside the (large) candidate set *)
  Lemma kreach_list : forall m init, kinv_closed m init = true ->
    exists sts : list (m_st M), In init sts /\
      forall s i, In s sts -> In i all_in -> exists s' o, m_step M s i = Ret (s', o) /\ In s' sts.
  Proof.
    intros m init Hc. exists (kall m). split.
    - apply andb_prop in Hc as [H _]. apply kmem_InK. exact H.
    - intros s i Hs Hi. exact (kinv_closed_step m init Hc s i Hs Hi).
  Qed.

  Lemma kall_init : forall m init, kinv_closed m init = true -> In init (kall m).
  Proof. intros m init Hc. apply andb_prop in Hc as [H _]. exact (kmem_InK _ _ H). Qed.
  Lemma kall_step : forall m init, kinv_closed m init = true ->
    forall s i, In s (kall m) -> In i all_in -> exists s' o, m_step M s i = Ret (s', o) /\ In s' (kall m).
  Proof. intros m init Hc s i Hs Hi. exact (kinv_closed_step m init Hc s i Hs Hi). Qed.

  Lemma kinit_in : forall m init, kinv_closed m init = true -> InK init m.
  Proof. intros m init Hc. apply andb_prop in Hc as [H _]. apply kmem_InK. exact H. Qed.
End ReachK.

(* Resynchronisation and silence bounds (as in Base/Machine.v, Section Reach) over ANY closed set of states
   given as a list - however it was computed and however membership in it was decided. *)
Section Closed.
  Context {Inp Out : Type} (M : machine Inp Out).
  Variable eqb : m_st M -> m_st M -> bool.
  Context `{E : EqbSpec _ eqb}.
  Variable all_in : list Inp.
  Variable silent : Out -> bool.
  Variable sts : list (m_st M).
  Variable init : m_st M.
  Hypothesis Hinit : In init sts.
  Hypothesis Hstep : forall s i, In s sts -> In i all_in -> exists s' o, m_step M s i = Ret (s', o) /\ In s' sts.

  Theorem reach_inv_gen : forall is, Forall (fun i => In i all_in) is ->
    forall s, In s sts -> exists s' os, run M s is = Ret (s', os) /\ In s' sts.
  Proof.
    intros is Hall. induction Hall as [|i is Hi Hall IH]; intros s Hs.
    - exists s, []. simpl. auto.
    - destruct (Hstep s i Hs Hi) as (s1 & o & E1 & H1).
      destruct (IH s1 H1) as (s' & os & R & Hin).
      exists s', (o :: os). simpl. rewrite E1, R. auto.
  Qed.

  Theorem resync_gen : resets M eqb all_in silent sts init = true ->
    forall h i t, Forall (fun x => In x all_in) (h ++ [i]) -> Forall (fun x => In x all_in) t ->
    forall sh oh o, run M init (h ++ [i]) = Ret (sh, oh ++ [o]) -> length oh = length h -> silent o = false ->
    sh = init /\
    run M init ((h ++ [i]) ++ t) =
      match run M init t with Ret (s', ot) => Ret (s', (oh ++ [o]) ++ ot) | Panic => Panic end.
  Proof.
    intros Hr h i t Hh Ht sh oh o Hrun Hlen Hs.
    assert (Hsh : sh = init).
    { rewrite run_app in Hrun. apply Forall_app in Hh as [Hh1 Hh2].
      destruct (reach_inv_gen h Hh1 init Hinit) as (s1 & o1 & R1 & Hin).
      rewrite R1 in Hrun. simpl in Hrun.
      destruct (m_step M s1 i) as [[s2 o2]|] eqn:E2; [|discriminate].
      injection Hrun as Hs2 Ho.
      apply app_inj_tail_iff in Ho as [_ Ho]. subst o2 s2.
      unfold resets in Hr. rewrite forallb_forall in Hr. specialize (Hr s1 Hin).
      rewrite forallb_forall in Hr. inversion Hh2 as [|? ? Hi _]. subst.
      specialize (Hr i Hi). rewrite E2, Hs in Hr. simpl in Hr. beq Hr. exact Hr. }
    split; [exact Hsh|].
    rewrite run_app, Hrun, Hsh. reflexivity.
  Qed.

  Theorem silence_bound_gen (n : nat) :
    forallb (fun s => negb (can_silent M all_in silent n s)) sts = true ->
    forall h b, Forall (fun x => In x all_in) h -> Forall (fun x => In x all_in) b -> length b = n ->
    exists sh oh s' ob, run M init h = Ret (sh, oh) /\ run M sh b = Ret (s', ob) /\
                        existsb (fun o => negb (silent o)) ob = true.
  Proof.
    intros Hn h b Hh Hb Hlen.
    destruct (reach_inv_gen h Hh init Hinit) as (sh & oh & R1 & Hin).
    destruct (reach_inv_gen b Hb sh Hin) as (s' & ob & R2 & _).
    exists sh, oh, s', ob. split; [exact R1|]. split; [exact R2|].
    destruct (existsb (fun o => negb (silent o)) ob) eqn:Ex; [reflexivity|exfalso].
    assert (Hall : forallb silent ob = true).
    { apply forallb_forall. intros o Ho. destruct (silent o) eqn:So; [reflexivity|].
      assert (existsb (fun o => negb (silent o)) ob = true) by (apply existsb_exists; exists o; rewrite So; auto).
      congruence. }
    pose proof (can_silent_complete M all_in silent b sh s' ob Hb R2 Hall) as Hcs. rewrite Hlen in Hcs.
    rewrite forallb_forall in Hn. specialize (Hn sh Hin). rewrite Hcs in Hn. discriminate.
  Qed.
End Closed.
