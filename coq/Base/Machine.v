(* Deterministic machines over the outcome monad, their runs, and a generic bisimulation theorem
   whose hypothesis is a boolean closure check evaluated by the kernel. *)
From Coq Require Import NArith Arith Bool List Lia.
From PK Require Import Base.Outcome Base.Finite.
Import ListNotations.

Record machine (Inp Out : Type) : Type := {
  m_st : Type;
  m_step : m_st -> Inp -> outcome (m_st * Out)
}.
Arguments m_st {Inp Out} m.
Arguments m_step {Inp Out} m s i.

Section Runs.
  Context {Inp Out : Type} (M : machine Inp Out).

  (* outputs of a run, and the final state; Panic if any step panics *)
  Fixpoint run (s : m_st M) (is : list Inp) : outcome (m_st M * list Out) :=
    match is with
    | [] => Ret (s, [])
    | i :: rest =>
        match m_step M s i with
        | Ret (s', o) =>
            match run s' rest with
            | Ret (s'', os) => Ret (s'', o :: os)
            | Panic => Panic
            end
        | Panic => Panic
        end
    end.

  Definition outs (s : m_st M) (is : list Inp) : outcome (list Out) := omap snd (run s is).
  Definition final (s : m_st M) (is : list Inp) : outcome (m_st M) := omap fst (run s is).

  Lemma run_app : forall a b s,
    run s (a ++ b) =
    match run s a with
    | Ret (s', oa) => match run s' b with Ret (s'', ob) => Ret (s'', oa ++ ob) | Panic => Panic end
    | Panic => Panic
    end.
  Proof.
    induction a as [|i a IH]; intros b s; simpl.
    - destruct (run s b) as [[s'' ob]|]; reflexivity.
    - destruct (m_step M s i) as [[s' o]|]; [|reflexivity].
      rewrite IH. destruct (run s' a) as [[s1 oa]|]; [|reflexivity].
      destruct (run s1 b) as [[s2 ob]|]; reflexivity.
  Qed.
End Runs.

Section Bisim.
  Context {Inp Out : Type} (M1 M2 : machine Inp Out).
  Variable eqb1 : m_st M1 -> m_st M1 -> bool.
  Context `{E1 : EqbSpec _ eqb1}.
  Variable oeqb : Out -> Out -> bool.
  Context `{EO : EqbSpec _ oeqb}.
  Variable all_in : list Inp.
  Variable validb : m_st M2 -> bool.      (* the spec states considered *)
  Variable all2 : list (m_st M2).
  Hypothesis all2_complete : forall s, validb s = true -> In s all2.
  Variable f : m_st M2 -> outcome (m_st M1).   (* the implementation state matching a spec state *)
  Variable exc : m_st M2 -> Inp -> bool.       (* cells (spec state, input) whose OUTPUT is excepted *)

  Definition step_ok (s2 : m_st M2) (s1 : m_st M1) (i : Inp) : bool :=
    match m_step M2 s2 i, m_step M1 s1 i with
    | Ret (s2', o2), Ret (s1', o1) =>
        (exc s2 i || oeqb o1 o2) && validb s2' &&
        match f s2' with Ret s1'' => eqb1 s1' s1'' | Panic => false end
    | _, _ => false
    end.

  Definition closed_at (s2 : m_st M2) : bool :=
    match f s2 with
    | Ret s1 => forallb (step_ok s2 s1) all_in
    | Panic => false
    end.

  (* the (spec state, input) cells at which the closure check fails: the search for a failing input *)
  Definition open_cells : list (m_st M2 * Inp) :=
    flat_map (fun s2 => match f s2 with
                        | Ret s1 => map (fun i => (s2, i)) (filter (fun i => negb (step_ok s2 s1 i)) all_in)
                        | Panic => map (fun i => (s2, i)) (firstn 1 all_in)
                        end) all2.

  Definition closedb : bool := forallb closed_at all2.

  (* From a pair of states that the closure check could not match, look for inputs on which the two
     machines visibly differ (an output differs or the implementation panics).  Only pairs that are
     still unmatched are followed, so the frontier stays small.  Paths are kept reversed. *)
  Fixpoint find_mismatch (fuel : nat) (frontier : list (list Inp * m_st M2 * m_st M1)) : option (list Inp) :=
    match fuel with
    | O => None
    | S fuel' =>
        let step1 (x : list Inp * m_st M2 * m_st M1) (i : Inp) : option (list Inp) + list (list Inp * m_st M2 * m_st M1) :=
          let '(path, s2, s1) := x in
          match m_step M2 s2 i, m_step M1 s1 i with
          | Ret (s2', o2), Ret (s1', o1) =>
              if exc s2 i || oeqb o1 o2 then
                if match f s2' with Ret s1'' => eqb1 s1' s1'' | Panic => false end
                then inr [] else inr [(i :: path, s2', s1')]
              else inl (Some (i :: path))
          | Ret _, Panic => inl (Some (i :: path))
          | Panic, _ => inr []
          end in
        let results := flat_map (fun x => map (step1 x) all_in) frontier in
        match find (fun r => match r with inl _ => true | inr _ => false end) results with
        | Some (inl r) => r
        | _ =>
            let next := flat_map (fun r => match r with inr l => l | inl _ => [] end) results in
            (* the frontier is capped: with hidden state in the implementation nearly every pair stays
               unmatched and the search would grow by the size of the alphabet at every level *)
            match next with [] => None | _ => find_mismatch fuel' (firstn 4096 next) end
        end
    end.

  Definition explain_cell (fuel : nat) (c : m_st M2 * Inp) : option (list Inp) :=
    let '(s2, i) := c in
    match f s2 with
    | Ret s1 =>
        match m_step M2 s2 i, m_step M1 s1 i with
        | Ret (s2', o2), Ret (s1', o1) =>
            if exc s2 i || oeqb o1 o2 then option_map (@rev Inp) (find_mismatch fuel [([i], s2', s1')]) else Some [i]
        | Ret _, Panic => Some [i]
        | Panic, _ => None
        end
    | Panic => Some []
    end.

  (* the two machines run in lock step on [is]; at every position whose cell is not excepted the
     outputs are equal; neither panics *)
  Fixpoint agree (s2 : m_st M2) (s1 : m_st M1) (is : list Inp) : Prop :=
    match is with
    | [] => True
    | i :: rest =>
        exists s2' o2 s1' o1,
          m_step M2 s2 i = Ret (s2', o2) /\ m_step M1 s1 i = Ret (s1', o1) /\
          (exc s2 i = false -> o1 = o2) /\ agree s2' s1' rest
    end.

  Theorem bisim_exc : closedb = true ->
    forall is, Forall (fun i => In i all_in) is ->
    forall s2 s1, validb s2 = true -> f s2 = Ret s1 -> agree s2 s1 is.
  Proof.
    intros Hc is Hall. induction Hall as [|i is Hi Hall IH]; intros s2 s1 Hv Hf.
    - exact I.
    - unfold closedb in Hc. rewrite forallb_forall in Hc.
      pose proof (Hc s2 (all2_complete s2 Hv)) as Hs. unfold closed_at in Hs. rewrite Hf in Hs.
      rewrite forallb_forall in Hs. specialize (Hs i Hi). unfold step_ok in Hs.
      destruct (m_step M2 s2 i) as [[s2' o2]|] eqn:E2; [|discriminate].
      destruct (m_step M1 s1 i) as [[s1' o1]|] eqn:E1'; [|discriminate].
      apply andb_prop in Hs as [Hs Hf']. apply andb_prop in Hs as [Ho Hv'].
      destruct (f s2') as [s1''|] eqn:Ef; [|discriminate].
      apply (reflect_eq_true (eqb_spec_pf (f:=eqb1) _ _)) in Hf'. subst s1''.
      cbn [agree]. exists s2', o2, s1', o1.
      split; [exact E2|]. split; [exact E1'|]. split.
      + intros Hx. rewrite Hx in Ho. simpl in Ho.
        exact (reflect_eq_true (eqb_spec_pf (f:=oeqb) _ _) Ho).
      + apply IH; assumption.
  Qed.

  Lemma agree_runs : (forall s i, exc s i = false) ->
    forall is s2 s1, agree s2 s1 is ->
    exists s2' s1' os, run M2 s2 is = Ret (s2', os) /\ run M1 s1 is = Ret (s1', os).
  Proof.
    intros Hx. induction is as [|i is IH]; intros s2 s1 H.
    - exists s2, s1, []. simpl. auto.
    - simpl in H. destruct H as (s2' & o2 & s1' & o1 & E2 & E1' & Ho & Hr).
      specialize (Ho (Hx _ _)). subst o2.
      destruct (IH _ _ Hr) as (t2 & t1 & os & R2 & R1).
      exists t2, t1, (o1 :: os). simpl. rewrite E2, E1', R2, R1. auto.
  Qed.

  Corollary bisim_outs : (forall s i, exc s i = false) -> closedb = true ->
    forall is, Forall (fun i => In i all_in) is ->
    forall s2 s1, validb s2 = true -> f s2 = Ret s1 ->
    outs M1 s1 is = outs M2 s2 is /\ outs M1 s1 is <> Panic.
  Proof.
    intros Hx Hc is Hall s2 s1 Hv Hf.
    destruct (agree_runs Hx is s2 s1 (bisim_exc Hc is Hall s2 s1 Hv Hf)) as (t2 & t1 & os & R2 & R1).
    unfold outs. rewrite R1, R2. simpl. split; [reflexivity | discriminate].
  Qed.
End Bisim.

(* Rebuild, inside the model M, the states that a breadth-first exploration of another machine
   recorded as a tree (state i > 0 was first reached from state [p] by input [i]); entry j of the
   result is M's state after following the same path. *)
Section Table.
  Context {Inp Out : Type} (M : machine Inp Out).
  Definition table_step (tbl : list (outcome (m_st M))) (edge : nat * Inp) : list (outcome (m_st M)) :=
    tbl ++ [match nth (fst edge) tbl Panic with
            | Ret s => match m_step M s (snd edge) with Ret (s', _) => Ret s' | Panic => Panic end
            | Panic => Panic
            end].
  Definition build_table (init : outcome (m_st M)) (edges : list (nat * Inp)) : list (outcome (m_st M)) :=
    fold_left table_step edges [init].
End Table.

(* Reachable-state invariants, resynchronisation and silence bounds for one machine. *)
Section Reach.
  Context {Inp Out : Type} (M : machine Inp Out).
  Variable eqb : m_st M -> m_st M -> bool.
  Context `{E : EqbSpec _ eqb}.
  Variable all_in : list Inp.
  Variable silent : Out -> bool.          (* outputs that mean "nothing yet" *)

  Definition mem (s : m_st M) (l : list (m_st M)) : bool := existsb (eqb s) l.
  Lemma mem_In : forall s l, mem s l = true -> In s l.
  Proof.
    intros s l H. unfold mem in H. apply existsb_exists in H as (x & Hx & Hq).
    beq Hq. subst x. exact Hx.
  Qed.

  (* breadth-first exploration from [init], bounded by fuel; the result is only a candidate set:
     [inv_closed] is what is proved about it *)
  Definition succs (frontier : list (m_st M)) : list (m_st M) :=
    flat_map (fun s => flat_map (fun i => match m_step M s i with Ret (s', _) => [s'] | Panic => [] end) all_in) frontier.
  Definition add_new (seen : list (m_st M)) (cands : list (m_st M)) : list (m_st M) :=
    fold_left (fun acc s => if mem s seen || mem s acc then acc else acc ++ [s]) cands [].
  Fixpoint explore (fuel : nat) (seen frontier : list (m_st M)) : list (m_st M) :=
    match fuel with
    | O => seen
    | S f => match add_new seen (succs frontier) with
             | [] => seen
             | next => explore f (seen ++ next) next
             end
    end.

  Variable sts : list (m_st M).
  Variable init : m_st M.

  Definition inv_closed : bool :=
    mem init sts &&
    forallb (fun s => forallb (fun i => match m_step M s i with Ret (s', _) => mem s' sts | Panic => false end) all_in) sts.

  Theorem reach_inv : inv_closed = true ->
    forall is, Forall (fun i => In i all_in) is ->
    forall s, In s sts -> exists s' os, run M s is = Ret (s', os) /\ In s' sts.
  Proof.
    intros Hc is Hall. apply andb_prop in Hc as [_ Hc]. rewrite forallb_forall in Hc.
    induction Hall as [|i is Hi Hall IH]; intros s Hs.
    - exists s, []. simpl. auto.
    - pose proof (Hc s Hs) as H. rewrite forallb_forall in H. specialize (H i Hi).
      destruct (m_step M s i) as [[s1 o]|] eqn:E1; [|discriminate].
      apply mem_In in H. destruct (IH s1 H) as (s' & os & R & Hin).
      exists s', (o :: os). simpl. rewrite E1, R. auto.
  Qed.

  Lemma inv_closed_step : inv_closed = true ->
    forall s i, In s sts -> In i all_in -> exists s' o, m_step M s i = Ret (s', o) /\ In s' sts.
  Proof.
    intros Hc s i Hs Hi. apply andb_prop in Hc as [_ Hc]. rewrite forallb_forall in Hc.
    specialize (Hc s Hs). rewrite forallb_forall in Hc. specialize (Hc i Hi).
    destruct (m_step M s i) as [[s' o]|]; [|discriminate].
    exists s', o. split; [reflexivity|]. apply mem_In. exact Hc.
  Qed.

  Lemma init_in : inv_closed = true -> In init sts.
  Proof. intros Hc. apply andb_prop in Hc as [H _]. apply mem_In. exact H. Qed.

  (* every transition that says something ends in the initial state *)
  Definition resets : bool :=
    forallb (fun s => forallb (fun i => match m_step M s i with
                                        | Ret (s', o) => silent o || eqb s' init
                                        | Panic => false end) all_in) sts.

  Theorem resync : inv_closed = true -> resets = true ->
    forall h i t, Forall (fun x => In x all_in) (h ++ [i]) -> Forall (fun x => In x all_in) t ->
    forall sh oh o, run M init (h ++ [i]) = Ret (sh, oh ++ [o]) -> length oh = length h -> silent o = false ->
    sh = init /\
    run M init ((h ++ [i]) ++ t) =
      match run M init t with Ret (s', ot) => Ret (s', (oh ++ [o]) ++ ot) | Panic => Panic end.
  Proof.
    intros Hc Hr h i t Hh Ht sh oh o Hrun Hlen Hs.
    assert (Hsh : sh = init).
    { rewrite run_app in Hrun. apply Forall_app in Hh as [Hh1 Hh2].
      destruct (reach_inv Hc h Hh1 init (init_in Hc)) as (s1 & o1 & R1 & Hin).
      rewrite R1 in Hrun. simpl in Hrun.
      destruct (m_step M s1 i) as [[s2 o2]|] eqn:E2; [|discriminate].
      injection Hrun as Hs2 Ho.
      assert (Hl : length o1 = length oh).
      { apply (f_equal (@length Out)) in Ho. rewrite !app_length in Ho. simpl in Ho.
        apply Nat.add_cancel_r in Ho. exact Ho. }
      apply app_inj_tail_iff in Ho as [_ Ho]. subst o2 s2.
      unfold resets in Hr. rewrite forallb_forall in Hr. specialize (Hr s1 Hin).
      rewrite forallb_forall in Hr. inversion Hh2 as [|? ? Hi _]. subst.
      specialize (Hr i Hi). rewrite E2, Hs in Hr. simpl in Hr. beq Hr. exact Hr. }
    split; [exact Hsh|].
    rewrite run_app, Hrun, Hsh. reflexivity.
  Qed.

  (* [can_silent k s]: some k inputs in a row, starting in s, are all answered by silence *)
  Fixpoint can_silent (k : nat) (s : m_st M) : bool :=
    match k with
    | O => true
    | S k' => existsb (fun i => match m_step M s i with
                                | Ret (s', o) => if silent o then can_silent k' s' else false
                                | Panic => false end) all_in
    end.

  Lemma can_silent_complete : forall b s s' ob,
    Forall (fun x => In x all_in) b -> run M s b = Ret (s', ob) -> forallb silent ob = true ->
    can_silent (length b) s = true.
  Proof.
    induction b as [|i b IH]; intros s s' ob Hb Hrun Hsil; [reflexivity|].
    simpl in Hrun. inversion Hb as [|? ? Hi Hb']. subst.
    destruct (m_step M s i) as [[s1 o]|] eqn:E1; [|discriminate].
    destruct (run M s1 b) as [[s2 os]|] eqn:R; [|discriminate].
    injection Hrun as Hs2 Ho. subst ob s'. simpl in Hsil. apply andb_prop in Hsil as [Ho Hos].
    simpl. apply existsb_exists. exists i. split; [exact Hi|]. rewrite E1, Ho.
    exact (IH s1 s2 os Hb' R Hos).
  Qed.

  (* after any history, any n consecutive inputs produce at least one non-silent answer *)
  Theorem silence_bound (n : nat) : inv_closed = true ->
    forallb (fun s => negb (can_silent n s)) sts = true ->
    forall h b, Forall (fun x => In x all_in) h -> Forall (fun x => In x all_in) b -> length b = n ->
    exists sh oh s' ob, run M init h = Ret (sh, oh) /\ run M sh b = Ret (s', ob) /\
                        existsb (fun o => negb (silent o)) ob = true.
  Proof.
    intros Hc Hn h b Hh Hb Hlen.
    destruct (reach_inv Hc h Hh init (init_in Hc)) as (sh & oh & R1 & Hin).
    destruct (reach_inv Hc b Hb sh Hin) as (s' & ob & R2 & _).
    exists sh, oh, s', ob. split; [exact R1|]. split; [exact R2|].
    destruct (existsb (fun o => negb (silent o)) ob) eqn:Ex; [reflexivity|exfalso].
    assert (Hall : forallb silent ob = true).
    { apply forallb_forall. intros o Ho. destruct (silent o) eqn:So; [reflexivity|].
      assert (existsb (fun o => negb (silent o)) ob = true) by (apply existsb_exists; exists o; rewrite So; auto).
      congruence. }
    pose proof (can_silent_complete b sh s' ob Hb R2 Hall) as Hcs. rewrite Hlen in Hcs.
    rewrite forallb_forall in Hn. specialize (Hn sh Hin). rewrite Hcs in Hn. discriminate.
  Qed.
End Reach.
