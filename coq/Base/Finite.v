(* Finite enumerations and boolean-equality bookkeeping used by the generated Types.v. *)
From Coq Require Import NArith Bool List.
From PK Require Import Base.Outcome.
Import ListNotations.

Definition all_bool : list bool := [false; true].
Lemma all_bool_complete : forall b : bool, In b all_bool.
Proof. intros []; simpl; auto. Qed.

Class EqbSpec {A : Type} (f : A -> A -> bool) : Type :=
  eqb_spec_pf : forall x y : A, reflect (x = y) (f x y).

#[global] Instance EqbSpec_N : EqbSpec N.eqb := N_eqb_spec.
#[global] Instance EqbSpec_bool : EqbSpec Bool.eqb := bool_eqb_spec.
#[global] Instance EqbSpec_unit : EqbSpec unit_eqb := unit_eqb_spec.
#[global] Instance EqbSpec_option {A} (f : A -> A -> bool) `{EqbSpec A f} : EqbSpec (option_eqb f) :=
  option_eqb_spec f eqb_spec_pf.
#[global] Instance EqbSpec_Result {T E} (f : T -> T -> bool) (g : E -> E -> bool) `{EqbSpec T f} `{EqbSpec E g} :
  EqbSpec (Result_eqb f g) := Result_eqb_spec f g eqb_spec_pf eqb_spec_pf.
#[global] Instance EqbSpec_outcome {A} (f : A -> A -> bool) `{EqbSpec A f} : EqbSpec (outcome_eqb f) :=
  outcome_eqb_spec f eqb_spec_pf.
#[global] Instance EqbSpec_list {A} (f : A -> A -> bool) `{EqbSpec A f} : EqbSpec (list_eqb f) :=
  list_eqb_spec f eqb_spec_pf.
#[global] Instance EqbSpec_prod {A B} (f : A -> A -> bool) (g : B -> B -> bool) `{EqbSpec A f} `{EqbSpec B g} :
  EqbSpec (prod_eqb f g) := prod_eqb_spec f g eqb_spec_pf eqb_spec_pf.

Ltac destruct_eqb_spec f x y := destruct (eqb_spec_pf (f := f) x y).
(* turn a boolean equality hypothesis [eqb a b = true] into [a = b] *)
Ltac beq H := apply (reflect_eq_true (eqb_spec_pf _ _)) in H.

Lemma eqb_true_iff {A} (f : A -> A -> bool) `{EqbSpec A f} x y : f x y = true <-> x = y.
Proof. destruct (eqb_spec_pf (f:=f) x y); split; congruence. Qed.
Lemma eqb_refl {A} (f : A -> A -> bool) `{EqbSpec A f} x : f x x = true.
Proof. destruct (eqb_spec_pf (f:=f) x x); congruence. Qed.
Lemma eqb_false_iff {A} (f : A -> A -> bool) `{EqbSpec A f} x y : f x y = false <-> x <> y.
Proof. destruct (eqb_spec_pf (f:=f) x y); split; congruence. Qed.

(* membership in enumerations built from map / flat_map / app over complete lists *)
Create HintDb fin discriminated.
#[global] Hint Resolve all_bool_complete : fin.
Ltac fin_in :=
  lazymatch goal with
  | |- In _ (flat_map _ _) => apply in_flat_map; eexists; split; [| fin_in]; [solve [auto with fin]]
  | |- In _ (map _ _) => apply in_map; solve [auto with fin]
  | |- In _ (_ ++ _) => apply in_or_app; first [left; solve [fin_in] | right; fin_in]
  | |- In _ (_ :: _) => first [left; reflexivity | right; fin_in]
  | |- _ => solve [auto with fin]
  end.

(* forallb / existsb over complete lists *)
Lemma forallb_complete {A} (l : list A) (p : A -> bool) :
  (forall x, In x l) -> forallb p l = true -> forall x, p x = true.
Proof. intros Hc H x. rewrite forallb_forall in H. apply H, Hc. Qed.

Lemma filter_nil_forall {A} (l : list A) (p : A -> bool) :
  filter p l = [] -> forall x, In x l -> p x = false.
Proof.
  intros H x Hin. destruct (p x) eqn:E; [|reflexivity].
  assert (In x (filter p l)) by (apply filter_In; auto). rewrite H in *. contradiction.
Qed.

(* the workhorse of every reflection proof: the computed list of violating elements is [known] *)
Lemma filter_sound {A} (l : list A) (bad : A -> bool) (known : list A) :
  (forall x, In x l) -> filter bad l = known -> forall x, ~ In x known -> bad x = false.
Proof.
  intros Hc H x Hn. destruct (bad x) eqn:E; [|reflexivity].
  exfalso. apply Hn. rewrite <- H. apply filter_In. split; [apply Hc | exact E].
Qed.
