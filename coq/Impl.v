(* The common signature of the two models of the code:
     Syn.*  - the Gallina functions regenerated from /repo/src by rs2v (G_syn)
     ExtI.* - the behaviour tables dumped from the compiled crate (G_ext)
   Every checker and every soundness theorem is written once against these records. *)
From Coq Require Import NArith Arith Bool List Lia.
From PK Require Import Base.Outcome Base.Finite Gen.Types.
Import ListNotations.
Local Open Scope N_scope.

Definition sc_result := Result (option KeyEvent) Error.

Record ScanImpl : Type := {
  sc_st : Type;
  sc_eqb : sc_st -> sc_st -> bool;
  sc_eqb_ok : EqbSpec sc_eqb;
  sc_init : outcome sc_st;
  sc_step : sc_st -> N -> outcome (sc_st * sc_result)
}.

Definition ps_result := Result (option N) Error.

Record Ps2Impl : Type := {
  ps_st : Type;
  ps_eqb : ps_st -> ps_st -> bool;
  ps_eqb_ok : EqbSpec ps_eqb;
  ps_init : outcome ps_st;
  ps_add_bit : ps_st -> bool -> outcome (ps_st * ps_result);
  ps_clear : ps_st -> outcome ps_st;
  ps_add_word : ps_st -> N -> outcome (Result N Error)
}.

Definition lay_fn := AnyLayout -> KeyCode -> Modifiers -> HandleControl -> outcome DecodedKey.

Record LayImpl : Type := {
  lay_map : lay_fn;      (* the ten layout structs themselves, indexed by the AnyLayout tag *)
  any_map : lay_fn;      (* impl KeyboardLayout for AnyLayout *)
  anyref_map : lay_fn    (* impl KeyboardLayout for &AnyLayout *)
}.

Record PredImpl : Type := {
  p_is_shifted : Modifiers -> outcome bool;
  p_is_ctrl : Modifiers -> outcome bool;
  p_is_alt : Modifiers -> outcome bool;
  p_is_altgr : Modifiers -> outcome bool;
  p_is_caps : Modifiers -> outcome bool
}.

(* The event decoder run with a recording layout: what was returned, and if the layout was
   consulted, with which key, modifier record and mode. *)
Inductive ev_res : Type :=
| ERNone
| ERRaw (k : KeyCode)
| ERCons (k : KeyCode) (m : Modifiers) (hc : HandleControl)
| EROther (c : N).

Definition ev_state : Type := Modifiers * HandleControl.

Record EvImpl : Type := {
  ev_init : HandleControl -> outcome ev_state;
  ev_reach : ev_state -> bool;     (* states the implementation can be in (all, for the syntactic model) *)
  ev_step : ev_state -> KeyEvent -> outcome (ev_state * ev_res);
  ev_setmode : ev_state -> HandleControl -> outcome ev_state
}.

(* bit i of the modifier record, in field order *)
Definition mod_bit (m : Modifiers) (i : N) : bool :=
  match i with
  | 0 => Modifiers_lshift m | 1 => Modifiers_rshift m | 2 => Modifiers_lctrl m | 3 => Modifiers_rctrl m
  | 4 => Modifiers_numlock m | 5 => Modifiers_capslock m | 6 => Modifiers_lalt m | 7 => Modifiers_ralt m
  | 8 => Modifiers_rctrl2 m | _ => false
  end.

Definition mods_of_bits (b : N) : Modifiers :=
  Modifiers_mk (N.testbit b 0) (N.testbit b 1) (N.testbit b 2) (N.testbit b 3) (N.testbit b 4)
               (N.testbit b 5) (N.testbit b 6) (N.testbit b 7) (N.testbit b 8).

Definition bits_of_mods (m : Modifiers) : N :=
  N.b2n (Modifiers_lshift m) + 2 * N.b2n (Modifiers_rshift m) + 4 * N.b2n (Modifiers_lctrl m)
  + 8 * N.b2n (Modifiers_rctrl m) + 16 * N.b2n (Modifiers_numlock m) + 32 * N.b2n (Modifiers_capslock m)
  + 64 * N.b2n (Modifiers_lalt m) + 128 * N.b2n (Modifiers_ralt m) + 256 * N.b2n (Modifiers_rctrl2 m).

Lemma mods_of_bits_of_mods : forall m, mods_of_bits (bits_of_mods m) = m.
Proof. intros [[] [] [] [] [] [] [] [] []]; reflexivity. Qed.

Definition ev_state_eqb (a b : ev_state) : bool :=
  Modifiers_eqb (fst a) (fst b) && HandleControl_eqb (snd a) (snd b).

Definition all_ev_state : list ev_state :=
  flat_map (fun m => map (fun hc => (m, hc)) all_HandleControl) all_Modifiers.
Lemma all_ev_state_complete : forall s, In s all_ev_state.
Proof.
  intros [m hc]; unfold all_ev_state. apply in_flat_map; exists m; split; [apply all_Modifiers_complete|].
  apply in_map. apply all_HandleControl_complete.
Qed.

Definition all_KeyEvent_ : list KeyEvent := all_KeyEvent.

(* the numbers below n, counted up in binary (never through unary nat values) *)
Fixpoint count_from (fuel : nat) (start : N) : list N :=
  match fuel with
  | O => []
  | S f => start :: count_from f (N.succ start)
  end.
Lemma count_from_In : forall fuel start b, start <= b < start + N.of_nat fuel -> In b (count_from fuel start).
Proof.
  induction fuel as [|f IH]; intros start b H.
  - simpl in H. lia.
  - cbn [count_from]. destruct (N.eq_dec start b) as [E|E]; [left; exact E | right].
    apply IH. lia.
Qed.
Definition all_below (n : N) : list N := count_from (N.to_nat n) 0.
Lemma all_below_complete : forall n b, b < n -> In b (all_below n).
Proof. intros n b H. unfold all_below. apply count_from_In. lia. Qed.
Lemma count_from_In_inv : forall fuel start b, In b (count_from fuel start) -> start <= b < start + N.of_nat fuel.
Proof.
  induction fuel as [|f IH]; intros start b H; [destruct H|].
  cbn [count_from] in H. destruct H as [E|H]; [lia|]. apply IH in H. lia.
Qed.
Lemma all_below_In : forall n b, In b (all_below n) -> b < n.
Proof. intros n b H. unfold all_below in H. apply count_from_In_inv in H. lia. Qed.
Definition all_bytes : list N := all_below 256.
Lemma all_bytes_complete : forall b, b < 256 -> In b all_bytes.
Proof. intros b H. apply all_below_complete. exact H. Qed.
