(* Encoding of results as lists of numbers, so that the driver can read witnesses printed by Coq. *)
From Coq Require Import NArith Bool List.
From PK Require Import Base.Outcome Gen.Types Impl.
Import ListNotations.
Local Open Scope N_scope.

Definition enc_dk (o : outcome DecodedKey) : list N :=
  match o with
  | Panic => [0]
  | Ret (DecodedKey_Unicode c) => [1; c]
  | Ret (DecodedKey_RawKey k) => [2; KeyCode_tag k]
  end.

Definition enc_sc (o : outcome sc_result) : list N :=
  match o with
  | Panic => [0]
  | Ret (Ok None) => [1]
  | Ret (Ok (Some ev)) => [2; KeyCode_tag (KeyEvent_code ev); KeyState_tag (KeyEvent_state ev)]
  | Ret (Err e) => [3; Error_tag e]
  end.

Definition enc_ps (o : outcome ps_result) : list N :=
  match o with
  | Panic => [0]
  | Ret (Ok None) => [1]
  | Ret (Ok (Some b)) => [2; b]
  | Ret (Err e) => [3; Error_tag e]
  end.

Definition enc_word (o : outcome (Result N Error)) : list N :=
  match o with
  | Panic => [0]
  | Ret (Ok b) => [2; b]
  | Ret (Err e) => [3; Error_tag e]
  end.

Definition enc_bool (o : outcome bool) : list N :=
  match o with Panic => [0] | Ret true => [1] | Ret false => [2] end.

Definition AnyLayout_idx (l : AnyLayout) : N :=
  match l with
  | AnyLayout_DVP104Key _ => 0 | AnyLayout_Dvorak104Key _ => 1 | AnyLayout_Us104Key _ => 2
  | AnyLayout_Uk105Key _ => 3 | AnyLayout_Jis109Key _ => 4 | AnyLayout_Azerty _ => 5
  | AnyLayout_Colemak _ => 6 | AnyLayout_De105Key _ => 7 | AnyLayout_No105Key _ => 8
  | AnyLayout_FiSe105Key _ => 9
  end.

Definition firstn_N {A} (n : nat) (l : list A) : list A := firstn n l.
