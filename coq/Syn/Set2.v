(* G_syn, scancode set 2 *)
From Coq Require Import NArith Bool List.
From PK Require Import Base.Outcome Base.Finite Gen.Types Gen.Lib Gen.Set2 Impl.

Definition syn_set2 : ScanImpl := {|
  sc_st := ScancodeSet2;
  sc_eqb := ScancodeSet2_eqb;
  sc_eqb_ok := EqbSpec_ScancodeSet2;
  sc_init := ScancodeSet2_new;
  sc_step := ScancodeSet2_advance_state
|}.
