(* G_syn, the five Modifiers predicates *)
From Coq Require Import NArith Bool List.
From PK Require Import Base.Outcome Gen.Types Gen.Lib Impl.

Definition syn_preds : PredImpl := {|
  p_is_shifted := Modifiers_is_shifted;
  p_is_ctrl := Modifiers_is_ctrl;
  p_is_alt := Modifiers_is_alt;
  p_is_altgr := Modifiers_is_altgr;
  p_is_caps := Modifiers_is_caps
|}.
