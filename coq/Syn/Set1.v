(* G_syn, scancode set 1 *)
From Coq Require Import NArith Bool List.
From PK Require Import Base.Outcome Base.Finite Gen.Types Gen.Lib Gen.Set1 Impl.

Definition syn_set1 : ScanImpl := {|
  sc_st := ScancodeSet1;
  sc_eqb := ScancodeSet1_eqb;
  sc_eqb_ok := EqbSpec_ScancodeSet1;
  sc_init := ScancodeSet1_new;
  sc_step := ScancodeSet1_advance_state
|}.
