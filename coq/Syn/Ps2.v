(* G_syn, frame decoder: the generated Ps2Decoder functions packaged as a Ps2Impl. *)
From Coq Require Import NArith Bool List.
From PK Require Import Base.Outcome Base.Finite Gen.Types Gen.Lib Impl.

Definition syn_ps2 : Ps2Impl := {|
  ps_st := Ps2Decoder;
  ps_eqb := Ps2Decoder_eqb;
  ps_eqb_ok := EqbSpec_Ps2Decoder;
  ps_init := Ps2Decoder_new;
  ps_add_bit := Ps2Decoder_add_bit;
  ps_clear := fun s => omap fst (Ps2Decoder_clear s);
  ps_add_word := Ps2Decoder_add_word
|}.
