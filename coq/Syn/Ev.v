(* G_syn, event decoder run with a recording layout dictionary *)
From Coq Require Import NArith Bool List.
From PK Require Import Base.Outcome Base.Finite Gen.Types Gen.Lib Impl.
Local Open Scope N_scope.

Definition mode_bit (hc : HandleControl) : N :=
  match hc with HandleControl_MapLettersToUnicode => 0 | HandleControl_Ignore => 1 end.
Definition mode_of_bit (b : bool) : HandleControl :=
  if b then HandleControl_Ignore else HandleControl_MapLettersToUnicode.

(* injective code of the consulted (key, modifiers, mode), as a char in plane 2/3 *)
Definition rec_code (k : KeyCode) (m : Modifiers) (hc : HandleControl) : N :=
  131072 + KeyCode_tag k * 1024 + bits_of_mods m * 2 + mode_bit hc.

Definition rec_dict : unit -> KeyCode -> Modifiers -> HandleControl -> outcome DecodedKey :=
  fun _ k m hc => Ret (DecodedKey_Unicode (rec_code k m hc)).

Definition classify (r : option DecodedKey) : ev_res :=
  match r with
  | None => ERNone
  | Some (DecodedKey_RawKey k) => ERRaw k
  | Some (DecodedKey_Unicode c) =>
      if (131072 <=? c) && (c <? 262144) then
        match KeyCode_of_tag ((c - 131072) / 1024) with
        | Some k => ERCons k (mods_of_bits (((c - 131072) / 2) mod 512)) (mode_of_bit (N.testbit c 0))
        | None => EROther c
        end
      else EROther c
  end.

Definition is_cons (x : ev_res) (k : KeyCode) (m : Modifiers) (hc : HandleControl) : bool :=
  match x with
  | ERCons k' m' hc' => KeyCode_eqb k k' && Modifiers_eqb m m' && HandleControl_eqb hc hc'
  | _ => false
  end.
Lemma is_cons_true : forall x k m hc, is_cons x k m hc = true -> x = ERCons k m hc.
Proof.
  intros x k m hc H; destruct x as [|?|k' m' hc'|?]; simpl in H; try discriminate.
  apply andb_prop in H as [H Hc]. apply andb_prop in H as [Ha Hb].
  apply (reflect_eq_true (KeyCode_eqb_spec _ _)) in Ha.
  apply (reflect_eq_true (Modifiers_eqb_spec _ _)) in Hb.
  apply (reflect_eq_true (HandleControl_eqb_spec _ _)) in Hc. congruence.
Qed.

Lemma classify_rec : forall k m hc, classify (Some (DecodedKey_Unicode (rec_code k m hc))) = ERCons k m hc.
Proof.
  assert (H : forallb (fun k => forallb (fun m => forallb (fun hc =>
             is_cons (classify (Some (DecodedKey_Unicode (rec_code k m hc)))) k m hc)
             all_HandleControl) all_Modifiers) all_KeyCode = true) by (vm_compute; reflexivity).
  intros k m hc. apply is_cons_true.
  pose proof (forallb_complete _ _ all_KeyCode_complete H k) as H1. cbv beta in H1.
  pose proof (forallb_complete _ _ all_Modifiers_complete H1 m) as H2. cbv beta in H2.
  exact (forallb_complete _ _ all_HandleControl_complete H2 hc).
Qed.

Definition syn_ev_step (s : ev_state) (ev : KeyEvent) : outcome (ev_state * ev_res) :=
  match EventDecoder_process_keyevent rec_dict (EventDecoder_mk (snd s) (fst s) tt) ev with
  | Ret (d, r) => Ret ((EventDecoder_modifiers d, EventDecoder_handle_ctrl d), classify r)
  | Panic => Panic
  end.

Definition syn_ev : EvImpl := {|
  ev_init := fun hc => omap (fun d => (EventDecoder_modifiers d, EventDecoder_handle_ctrl d))
                            (EventDecoder_new rec_dict tt hc);
  ev_reach := fun _ => true;
  ev_step := syn_ev_step;
  ev_setmode := fun s hc =>
    omap (fun p => (EventDecoder_modifiers (fst p), EventDecoder_handle_ctrl (fst p)))
         (EventDecoder_set_ctrl_handling rec_dict (EventDecoder_mk (snd s) (fst s) tt) hc)
|}.
