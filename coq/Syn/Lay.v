(* G_syn, layouts: the ten layout structs indexed by AnyLayout's tag, and the two wrapper impls *)
From Coq Require Import NArith Bool List.
From PK Require Import Base.Outcome Gen.All Impl.

Definition syn_lay_map : lay_fn := fun l k m hc =>
  match l with
  | AnyLayout_DVP104Key x => DVP104Key_map_keycode x k m hc
  | AnyLayout_Dvorak104Key x => Dvorak104Key_map_keycode x k m hc
  | AnyLayout_Us104Key x => Us104Key_map_keycode x k m hc
  | AnyLayout_Uk105Key x => Uk105Key_map_keycode x k m hc
  | AnyLayout_Jis109Key x => Jis109Key_map_keycode x k m hc
  | AnyLayout_Azerty x => Azerty_map_keycode x k m hc
  | AnyLayout_Colemak x => Colemak_map_keycode x k m hc
  | AnyLayout_De105Key x => De105Key_map_keycode x k m hc
  | AnyLayout_No105Key x => No105Key_map_keycode x k m hc
  | AnyLayout_FiSe105Key x => FiSe105Key_map_keycode x k m hc
  end.

Definition syn_lay : LayImpl := {|
  lay_map := syn_lay_map;
  any_map := AnyLayout_map_keycode;
  anyref_map := RefAnyLayout_map_keycode
|}.
