From Coq Require Import NArith Bool List String.
From PK Require Import Base.Outcome Base.Finite Gen.Types Impl Ext.Ps2 ExtI.Ps2 Ext.Lay ExtI.Lay Ext.Event ExtI.Ev Check.C08 Enc.
Import ListNotations.
Local Open Scope N_scope.
Eval vm_compute in ("cex"%string, map (fun w => ([w], [9], enc_word (ps_add_word ext_ps2 0 w))) (firstn 5 (panicking_words ext_ps2 0))).
