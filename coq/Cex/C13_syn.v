From Coq Require Import NArith Bool List String.
From PK Require Import Base.Outcome Base.Machine Gen.Types Impl Spec.ScanRef Spec.ScanAuto Syn.Set1 Syn.Set2 Check.Scan Check.C19 Check.C13 Enc.
Import ListNotations.
Local Open Scope N_scope.
Notation I1 := syn_set1.
Notation I2 := syn_set2.
(* all failing cells, known ones included (the driver subtracts the known list) *)
Definition all_a := filter (fun x : prefix * bool * N => let '(p, brk, c2) := x in code_position p false c2 && negb (ok_a I1 I2 p brk c2)) dom3.
Definition all_b := filter (fun x : prefix * bool * N => let '(p, brk, c1) := x in (c1 <? 128) && negb (ok_b I1 I2 p brk c1)) dom3.
Eval vm_compute in ("cex"%string,
  map (fun x : prefix * bool * N => let '(p, brk, c2) := x in
         (wit_a p brk c2, enc_sc (last_out I2 (seq_set2 p brk c2)),
          enc_sc (match xlat c2 with Some c1 => last_out I1 (seq_set1 p brk c1) | None => Panic end))) (firstn 40 all_a)
  ++
  map (fun x : prefix * bool * N => let '(p, brk, c1) := x in
         (wit_b p brk c1, enc_sc (last_out I1 (seq_set1 p brk c1)),
          enc_sc (match filter (fun c2 => match xlat c2 with Some c => c =? c1 | None => false end) all_bytes with c2 :: _ => last_out I2 (seq_set2 p brk c2) | [] => Panic end))) (firstn 40 all_b)).
