From Coq Require Import NArith Bool List String.
From PK Require Import Base.Outcome Base.Finite Base.Machine Base.Reach Gen.Types Impl Spec.Frame Gen.All Syn.Ps2 Check.Ps2M Check.C08 Enc.
Import ListNotations.
Local Open Scope N_scope.
Notation I := syn_ps2.
Definition enc_op (op : bit_op) : N := match op with Bit false => 0 | Bit true => 1 | Clear => 2 end.
(* breadth-first from the initial state; a shortest operation sequence whose last operation panics *)
Definition find_panic : option (list bit_op) :=
  ps_at_init I None (fun s0 => kfind_panic (ps2_machine I) (ps_eqb I) Ps2Decoder_hash all_ops 4000 300000 s0).
Eval vm_compute in ("cex"%string,
  match find_panic with Some p => [(map enc_op p, [9], [0])] | None => [] end).
