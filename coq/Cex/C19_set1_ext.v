From Coq Require Import NArith List String.
From PK Require Import Base.Outcome Base.Machine Gen.Types Impl Spec.ScanRef Spec.ScanAuto Ext.Set1 ExtI.Scan Check.Scan Check.C19 Enc.
Import ListNotations.
Local Open Scope N_scope.
Notation I := ext_set1.
Notation w := Set1.
(* witness: set, make sequence, 999, break (or clashing make) sequence; "expected" = result of the first,
   "actual" = result of the second *)
Eval vm_compute in ("cex"%string,
  map (fun x : prefix * N =>
         (1 :: make_seq w (fst x) (snd x) ++ [999] ++ break_seq w (fst x) (snd x),
          enc_sc (last_out I (make_seq w (fst x) (snd x))), enc_sc (last_out I (break_seq w (fst x) (snd x)))))
      (firstn 10 (unpaired_C19 I w))
  ++
  map (fun ab : (KeyCode * (prefix * N)) * (KeyCode * (prefix * N)) =>
         let a := snd (fst ab) in let b := snd (snd ab) in
         (1 :: make_seq w (fst a) (snd a) ++ [999] ++ make_seq w (fst b) (snd b),
          enc_sc (last_out I (make_seq w (fst a) (snd a))), enc_sc (last_out I (make_seq w (fst b) (snd b)))))
      (firstn 10 (clashes_C19 I w))
  ++
  (* history dependence: a complete sequence that does not leave the decoder in its initial state, followed
     by a complete sequence which is then decoded differently than on a fresh decoder *)
  (let all := flat_map (fun x : prefix * N => [make_seq w (fst x) (snd x); break_seq w (fst x) (snd x)]) (wf_domain w) in
   let firsts := flat_map (fun x : prefix * N => filter (fun bs => negb (home I bs)) [make_seq w (fst x) (snd x); break_seq w (fst x) (snd x)])
                          (firstn 24 (homeless_C19 I w)) in
   map (fun ab : list N * list N => (1 :: snd ab ++ [999] ++ fst ab ++ snd ab, enc_sc (last_out I (snd ab)), enc_sc (last_out I (fst ab ++ snd ab))))
       (firstn 10 (filter (fun ab : list N * list N =>
                     negb (outcome_eqb scres_eqb (last_out I (snd ab)) (last_out I (fst ab ++ snd ab))))
                  (list_prod firsts all))))).
