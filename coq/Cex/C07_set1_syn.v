From Coq Require Import NArith List String.
From PK Require Import Base.Outcome Base.Machine Base.Reach Gen.Types Impl Syn.Set1 Check.Scan Check.C07 Enc.
Import ListNotations.
Local Open Scope N_scope.
Notation I := syn_set1.
Notation s0 := (ScancodeSet1_mk DecodeState_Start).
Notation key := ScancodeSet1_hash.
(* witness: a shortest byte stream whose last byte is answered with an event/error (or a panic) without the
   decoder returning to its initial state, followed by the probe 0x1C whose decoding then differs *)
Eval vm_compute in ("cex"%string,
  match find_nonresetting I key s0 with
  | Some bs =>
      [(1 :: bs ++ [0x1C],
        enc_sc (omap snd (sc_step I s0 0x1C)),
        enc_sc (omap (fun os => last os (Ok None)) (outs (scan_machine I) s0 (bs ++ [0x1C]))))]
  | None => []
  end).
