From Coq Require Import NArith Bool List String.
From PK Require Import Base.Outcome Base.Finite Base.Machine Gen.Types Impl Spec.Frame Ext.Ps2 ExtI.Ps2 Check.Ps2M Check.C08 Enc.
Import ListNotations.
Local Open Scope N_scope.
Notation I := ext_ps2.
Notation s0 := 0.
Definition enc_op (op : bit_op) : N := match op with Bit false => 0 | Bit true => 1 | Clear => 2 end.
(* breadth-first paths from the initial state; stop at the first operation that panics *)
Definition find_panic : option (list bit_op) :=
  (fix go (fuel : nat) (known frontier : list (ps_st I * list bit_op)) : option (list bit_op) :=
     match fuel with O => None | S f =>
       let r := fold_left (fun (acc : option (list bit_op) * list (ps_st I * list bit_op)) sp =>
            fold_left (fun (acc : option (list bit_op) * list (ps_st I * list bit_op)) op =>
               match fst acc with Some _ => acc | None =>
                 match m_step (ps2_machine I) (fst sp) op with
                 | Ret (s', _) => if existsb (fun q => ps_eqb I (fst q) s') (known ++ snd acc) then acc else (None, snd acc ++ [(s', snd sp ++ [op])])
                 | Panic => (Some (snd sp ++ [op]), snd acc)
                 end end) all_ops acc) frontier (None, []) in
       match fst r with Some p => Some p | None =>
         match snd r with [] => None | next => go f (known ++ next) next end end end) 64%nat [(s0, [])] [(s0, [])].
Eval vm_compute in ("cex"%string,
  (* no table (state bound exceeded) means nothing to search here; the harness searches the crate itself *)
  if ext_ps2_states =? 0 then [] else
  match find_panic with Some p => [(map enc_op p, [9], [0])] | None => [] end).
