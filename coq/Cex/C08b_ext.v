From Coq Require Import NArith Bool List String.
From PK Require Import Base.Outcome Base.Finite Base.Machine Base.Reach Gen.Types Impl Spec.Frame Ext.Ps2 ExtI.Ps2 Check.Ps2M Check.C08 Enc.
Import ListNotations.
Local Open Scope N_scope.
Notation I := ext_ps2.
Notation s0 := 0.
Definition enc_op (op : bit_op) : N := match op with Bit false => 0 | Bit true => 1 | Clear => 2 end.
(* breadth-first from the initial state; a shortest operation sequence whose last operation panics *)
Definition find_panic : option (list bit_op) :=
  kfind_panic (ps2_machine I) (ps_eqb I) (fun s : N => s) all_ops 4000 300000 s0.
Eval vm_compute in ("cex"%string,
  (* no table (state bound exceeded) means nothing to search here; the harness searches the crate itself *)
  if ext_ps2_states =? 0 then [] else
  match find_panic with Some p => [(map enc_op p, [9], [0])] | None => [] end).
