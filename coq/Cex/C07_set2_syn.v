From Coq Require Import NArith List String.
From PK Require Import Base.Outcome Base.Machine Base.Reach Gen.Types Impl Spec.ScanRef Spec.ScanAuto Syn.Set2 Check.Scan Check.C07 Enc.
Import ListNotations.
Local Open Scope N_scope.
Notation I := syn_set2.
Notation key := ScancodeSet2_hash.
(* witness: a shortest byte stream whose last byte is answered with an event/error (or a panic) without the
   decoder returning to its initial state, followed by a complete sequence that is then decoded differently
   than by a fresh decoder (if none of the 1536 candidate sequences shows it: the probe 0x1C) *)
Definition continuations : list (list N) := flat_map (fun p => flat_map (fun brk : bool => map (fun c => path2 (p, brk) ++ [c]) all_bytes) [false; true]) all_prefix.
Definition last_of (s0 : sc_st I) (bs : list N) : outcome sc_result := omap (fun os => last os (Ok None)) (outs (scan_machine I) s0 bs).
Eval vm_compute in ("cex"%string, at_init I [] (fun s0 =>
  match find_nonresetting I key s0 with
  | Some bs =>
      let t := match find (fun t => negb (outcome_eqb scres_eqb (last_of s0 t) (last_of s0 (bs ++ t)))) continuations with
               | Some t => t | None => [0x1C] end in
      (* the offending transition itself panics: that stream is the witness *)
      if negb (is_ret (last_of s0 bs)) then [(2 :: bs, [9], [0])] else
      [(2 :: bs ++ t, enc_sc (last_of s0 t), enc_sc (last_of s0 (bs ++ t)))]
  | None => []
  end)).
