From Coq Require Import NArith Bool List String.
From PK Require Import Base.Outcome Base.Finite Gen.Types Impl Ext.Ps2 ExtI.Ps2 Ext.Lay ExtI.Lay Ext.Event ExtI.Ev Check.Lay Check.C08 Enc.
Import ListNotations.
Local Open Scope N_scope.
(* layout cells (any of the three forms) that panic or return an invalid scalar *)
Eval vm_compute in ("cex"%string,
  map (fun c : cell => let '(l, k, m, hc) := c in
        let form := if negb (valid_result (lay_map ext_lay l k m hc)) then 0 else if negb (valid_result (any_map ext_lay l k m hc)) then 1 else 2 in
        (form :: enc_cell c, [9], enc_dk (match form with 0 => lay_map ext_lay l k m hc | 1 => any_map ext_lay l k m hc | _ => anyref_map ext_lay l k m hc end)))
      (firstn 10 (per_key (cex_lay_C08 ext_lay)))).
