From Coq Require Import NArith Bool List String.
From PK Require Import Base.Outcome Base.Finite Gen.Types Impl Spec.Known Gen.All Syn.Lay Syn.Preds Check.Lay Check.C16 Enc.
Import ListNotations.
Notation LI := syn_lay.
(* witness: layout index, key, modifier bits, mode; actual = what the layout returns there *)
Eval vm_compute in ("cex"%string, map (fun c : cell => let '(l, k, m, hc) := c in (enc_cell c, ([] : list N), enc_dk (lay_map LI l k m hc))) (firstn 80 (per_key (cex_C16 LI)))).
Eval vm_compute in ("failing_cells"%string, N.of_nat (List.length (cex_C16 LI))).
