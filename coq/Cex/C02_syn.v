From Coq Require Import NArith List String.
From PK Require Import Base.Outcome Base.Machine Gen.Types Impl Spec.ScanRef Spec.ScanAuto Syn.Set1 Check.Scan Check.C02 Enc.
Import ListNotations.
Local Open Scope N_scope.
(* witness: byte stream from the initial state; expected / actual result of its last byte *)
Eval vm_compute in ("cex"%string,
  flat_map (fun c =>
         match (match explain_focus_C02 syn_set1 c with Some t => Some t | None => explain_wide_C02 syn_set1 c end) with
         | Some tail =>
             let bs := path1 (fst c) ++ tail in
             [(bs,
               enc_sc (omap (fun os => last os (Ok None)) (outs auto1 P0 bs)),
               enc_sc (match sc_init syn_set1 with Ret s0 => omap (fun os => last os (Ok None)) (outs (scan_machine syn_set1) s0 bs) | Panic => Panic end))]
         | None => []
         end)
      (firstn 40 (open_all_C02 syn_set1))).
Eval vm_compute in ("open_cells"%string, N.of_nat (List.length (open_all_C02 syn_set1))).
