From Coq Require Import NArith Bool List String.
From PK Require Import Base.Outcome Base.Finite Gen.Types Impl Gen.All Syn.Ps2 Syn.Lay Syn.Ev Check.C08 Enc.
Import ListNotations.
Local Open Scope N_scope.
Eval vm_compute in ("cex"%string, map (fun w => ([w], [9], enc_word (ps_add_word syn_ps2 (Ps2Decoder_mk 0 0) w))) (firstn 5 (panicking_words syn_ps2 (Ps2Decoder_mk 0 0)))).
