From Coq Require Import NArith Bool List String.
From PK Require Import Base.Outcome Base.Finite Gen.Types Impl Gen.All Syn.Ps2 Syn.Lay Syn.Ev Check.Ps2M Check.C08 Enc.
Import ListNotations.
Local Open Scope N_scope.
Eval vm_compute in ("cex"%string, ps_at_init syn_ps2 [] (fun s0 => map (fun w => ([w], [9], enc_word (ps_add_word syn_ps2 s0 w))) (firstn 5 (panicking_words syn_ps2 s0)))).
