From Coq Require Import NArith Bool List String.
From PK Require Import Gen.Sigs Check.C20.
Import ListNotations.
Eval vm_compute in ("not_const"%string, not_const).
Eval vm_compute in ("not_auto"%string, not_auto, manual_auto_impls).
