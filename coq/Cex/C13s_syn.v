From Coq Require Import NArith Bool List String.
From PK Require Import Base.Outcome Base.Machine Gen.Types Impl Spec.ScanRef Spec.ScanAuto Syn.Set1 Syn.Set2 Check.Scan Check.C19 Check.C13 Check.C13s Enc.
Import ListNotations.
Local Open Scope N_scope.
Notation I1 := syn_set1.
Notation I2 := syn_set2.
(* single tokens that fail from the initial state, then pairs of tokens whose event streams differ *)
Definition enc_last (I : ScanImpl) (bs : list N) : list N := enc_sc (last_out I bs).
Eval vm_compute in ("cex"%string,
  map (fun t : tok => (wit 0 (tok2 t) (tok1 t), enc_last I2 (tok2 t), enc_last I1 (tok1 t))) (firstn 20 (cex_C13s I1 I2))
  ++
  map (fun x : tok * tok => (wit 0 (tok2 (fst x) ++ tok2 (snd x)) (tok1 (fst x) ++ tok1 (snd x)),
                             enc_last I2 (tok2 (fst x) ++ tok2 (snd x)), enc_last I1 (tok1 (fst x) ++ tok1 (snd x))))
      (match cex_C13s I1 I2 with [] => [] | _ => firstn 20 (cex_pairs_C13s I1 I2) end)).
