From Coq Require Import NArith Bool List String.
From PK Require Import Base.Outcome Base.Machine Gen.Types Impl Spec.ScanRef Spec.ScanAuto Syn.Set1 Syn.Set2 Check.Scan Check.C19 Check.C13 Check.C13s Enc.
Import ListNotations.
Local Open Scope N_scope.
Notation I1 := syn_set1.
Notation I2 := syn_set2.
(* key sequences that fail on their own from the initial state, and
   two-element streams (key sequence or pass-through byte, then a key sequence) whose last event differs *)
Definition enc_last (I : ScanImpl) (bs : list N) : list N := enc_sc (last_out I bs).
Definition singles := filter (fun t : tok => considered I2 t &&
   negb (outcome_eqb scres_eqb (last_out I2 (tok2 t)) (last_out I1 (tok1 t)))) dom3.
Eval vm_compute in ("cex"%string,
  map (fun t : tok => (wit 0 (tok2 t) (tok1 t), enc_last I2 (tok2 t), enc_last I1 (tok1 t))) (firstn 20 singles)
  ++
  map (fun x : stok * tok => (wit 0 (stok2 (fst x) ++ tok2 (snd x)) (stok1 (fst x) ++ tok1 (snd x)),
                              enc_last I2 (stok2 (fst x) ++ tok2 (snd x)), enc_last I1 (stok1 (fst x) ++ tok1 (snd x))))
      (firstn 20 (cex_pairs_C13s I1 I2))).
