From Coq Require Import NArith Bool List String.
From PK Require Import Base.Outcome Gen.Types Impl Spec.Mods Ext.Event ExtI.Ev Check.EvImpl Enc.
Import ListNotations.
Local Open Scope N_scope.
Definition enc_res (r : ev_res) : list N :=
  match r with
  | ERNone => [1] | ERRaw k => [2; KeyCode_tag k]
  | ERCons k m hc => [3; KeyCode_tag k; bits_of_mods m; HandleControl_tag hc]
  | EROther c => [4; c] end.
Definition enc_step (o : outcome (ev_state * ev_res)) : list N :=
  match o with Panic => [0] | Ret (s, r) => bits_of_mods (fst s) :: HandleControl_tag (snd s) :: enc_res r end.
(* witness: modifier bits and mode of the state, then the event (key, key state) or 999 and the new mode *)
Eval vm_compute in ("cex"%string,
  map (fun x : ev_state * KeyEvent =>
        ([bits_of_mods (fst (fst x)); HandleControl_tag (snd (fst x)); KeyCode_tag (KeyEvent_code (snd x)); KeyState_tag (KeyEvent_state (snd x))],
         enc_step (Ret (spec_ev_step (fst x) (snd x))), enc_step (ev_step ext_ev (fst x) (snd x))))
      (firstn 12 (cex_step ext_ev))
  ++ map (fun x : ev_state * HandleControl =>
        ([bits_of_mods (fst (fst x)); HandleControl_tag (snd (fst x)); 999; HandleControl_tag (snd x)],
         [bits_of_mods (fst (fst x)); HandleControl_tag (snd x)],
         match ev_setmode ext_ev (fst x) (snd x) with Ret s => [bits_of_mods (fst s); HandleControl_tag (snd s)] | Panic => [0] end))
      (firstn 4 (cex_mode ext_ev))).
