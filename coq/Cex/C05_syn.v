From Coq Require Import NArith List String.
From PK Require Import Base.Outcome Gen.Types Impl Spec.Frame Syn.Ps2 Check.C05 Enc.
Import ListNotations.
Local Open Scope N_scope.
Eval vm_compute in ("cex"%string,
  map (fun w => ([w], enc_word (Ret (check w)), enc_word (ps_add_word syn_ps2 (Ps2Decoder_mk 0 0) w)))
      (firstn 20 (cex_C05 syn_ps2 (Ps2Decoder_mk 0 0)))).
