From Coq Require Import NArith List String.
From PK Require Import Base.Outcome Gen.Types Impl Spec.Frame Syn.Ps2 Check.Ps2M Check.C05 Enc.
Import ListNotations.
Local Open Scope N_scope.
Eval vm_compute in ("cex"%string, ps_at_init syn_ps2 [] (fun s0 =>
  map (fun w => ([w], enc_word (Ret (check w)), enc_word (ps_add_word syn_ps2 s0 w)))
      (firstn 20 (cex_C05 syn_ps2 s0)))).
