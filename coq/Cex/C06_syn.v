From Coq Require Import NArith List String.
From PK Require Import Base.Outcome Base.Machine Gen.Types Impl Spec.Frame Syn.Ps2 Check.Ps2M Check.C06 Enc.
Import ListNotations.
Local Open Scope N_scope.
Definition enc_op (op : bit_op) : N := match op with Bit false => 0 | Bit true => 1 | Clear => 2 end.
(* witness: bit operations from the initial state on which the last result differs from the Spec's *)
Eval vm_compute in ("cex"%string,
  flat_map (fun c : fstate * bit_op =>
         match explain_C06 syn_ps2 c with
         | Some tail =>
             let ops := map Bit (fst c) ++ tail in
             [(map enc_op ops,
               enc_ps (omap (fun os => last os (Ok None)) (outs frame_machine [] ops)),
               enc_ps (ps_at_init syn_ps2 Panic (fun s0 => omap (fun os => last os (Ok None)) (outs (ps2_machine syn_ps2) s0 ops))))]
         | None => []
         end)
      (firstn 6 (open_C06 syn_ps2))).
(* cells where the closure check fails (for the record, also those without an observable difference) *)
Eval vm_compute in ("open_cells"%string, N.of_nat (List.length (open_C06 syn_ps2))).
