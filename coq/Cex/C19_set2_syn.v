From Coq Require Import NArith List String.
From PK Require Import Base.Outcome Base.Machine Gen.Types Impl Spec.ScanRef Spec.ScanAuto Syn.Set2 Check.Scan Check.C19 Enc.
Import ListNotations.
Local Open Scope N_scope.
Notation I := syn_set2.
Notation w := Set2.
(* witness: set, make sequence, 999, break (or clashing make) sequence; "expected" = result of the first,
   "actual" = result of the second *)
Eval vm_compute in ("cex"%string,
  map (fun x : prefix * N =>
         (2 :: make_seq w (fst x) (snd x) ++ [999] ++ break_seq w (fst x) (snd x),
          enc_sc (last_out I (make_seq w (fst x) (snd x))), enc_sc (last_out I (break_seq w (fst x) (snd x)))))
      (firstn 10 (unpaired_C19 I w))
  ++
  map (fun ab : (KeyCode * (prefix * N)) * (KeyCode * (prefix * N)) =>
         let a := snd (fst ab) in let b := snd (snd ab) in
         (2 :: make_seq w (fst a) (snd a) ++ [999] ++ make_seq w (fst b) (snd b),
          enc_sc (last_out I (make_seq w (fst a) (snd a))), enc_sc (last_out I (make_seq w (fst b) (snd b)))))
      (firstn 10 (clashes_C19 I w))).
