From Coq Require Import NArith List String.
From PK Require Import Base.Outcome Base.Machine Gen.Types Impl Ext.Set2 ExtI.Scan Check.Scan Check.C07 Enc.
Import ListNotations.
Local Open Scope N_scope.
Notation I := ext_set2.
Notation s0 := 0.
(* shortest byte path from the initial state to each explored state (BFS order), then the offending byte *)
Definition paths : list (sc_st I * list N) :=
  (fix go (fuel : nat) (known frontier : list (sc_st I * list N)) : list (sc_st I * list N) :=
     match fuel with O => known | S f =>
       let next := fold_left (fun acc sp =>
            fold_left (fun acc b => match sc_step I (fst sp) b with
                                    | Ret (s', _) => if existsb (fun q => sc_eqb I (fst q) s') (known ++ acc) then acc else acc ++ [(s', snd sp ++ [b])]
                                    | Panic => acc end) all_bytes acc) frontier [] in
       match next with [] => known | _ => go f (known ++ next) next end end) 64%nat [(s0, [])] [(s0, [])].
Definition path_to (s : sc_st I) : list N :=
  match find (fun q => sc_eqb I (fst q) s) paths with Some q => snd q | None => [] end.
(* witness: a byte stream whose last byte is answered with an event/error (or a panic) without the
   decoder returning to its initial state, followed by the probe 0x1C whose decoding then differs *)
Eval vm_compute in ("cex"%string,
  map (fun c : sc_st I * N =>
         let bs := path_to (fst c) ++ [snd c] in
         (2 :: bs ++ [0x1C],
          enc_sc (omap snd (sc_step I s0 0x1C)),
          enc_sc (omap (fun os => last os (Ok None)) (outs (scan_machine I) s0 (bs ++ [0x1C])))))
      (firstn 10 (nonresetting I s0))).
Eval vm_compute in ("nonresetting"%string, N.of_nat (List.length (nonresetting I s0))).
