From Coq Require Import NArith List String.
From PK Require Import Base.Outcome Gen.Types Impl Spec.Frame Ext.Ps2 ExtI.Ps2 Check.C05 Enc.
Import ListNotations.
Local Open Scope N_scope.
Eval vm_compute in ("cex"%string,
  map (fun w => ([w], enc_word (Ret (check w)), enc_word (ps_add_word ext_ps2 0 w))) (firstn 20 (cex_C05 ext_ps2 0))).
