From Coq Require Import NArith List String.
From PK Require Import Base.Outcome Base.Machine Gen.Types Impl Spec.ScanRef Spec.ScanAuto Syn.Set2 Check.Scan Check.C01 Enc.
Import ListNotations.
Local Open Scope N_scope.
(* witness: byte stream from the initial state; expected / actual result of its last byte *)
Eval vm_compute in ("cex"%string,
  flat_map (fun c =>
         match (match explain_focus_C01 syn_set2 c with Some t => Some t | None => explain_wide_C01 syn_set2 c end) with
         | Some tail =>
             let bs := path2 (fst c) ++ tail in
             [(bs,
               enc_sc (omap (fun os => last os (Ok None)) (outs auto2 ctx2_init bs)),
               enc_sc (match sc_init syn_set2 with Ret s0 => omap (fun os => last os (Ok None)) (outs (scan_machine syn_set2) s0 bs) | Panic => Panic end))]
         | None => []
         end)
      (firstn 24 (open_C01 syn_set2))).
Eval vm_compute in ("open_cells"%string, N.of_nat (List.length (open_C01 syn_set2))).
