From Coq Require Import NArith Bool List String.
From PK Require Import Base.Outcome Base.Finite Gen.Types Impl Spec.Known Gen.All Syn.Lay Check.Lay Check.C12 Enc.
Import ListNotations.
Notation LI := syn_lay.
(* witness: layout index, character *)
Eval vm_compute in ("cex"%string, map (fun x : AnyLayout * N => ([AnyLayout_idx (fst x); snd x], ([] : list N), ([] : list N))) (gaps LI)).
