(* Non-vacuity: concrete, non-trivial instances meeting the hypotheses of the conditional theorems,
   so that none of them holds merely because nothing satisfies its premises.  (On G_syn.) *)
From Coq Require Import NArith Bool List.
From PK Require Import Base.Outcome Base.Finite Base.Machine Gen.All Impl Spec.Frame Spec.ScanRef Spec.ScanAuto Spec.Mods Spec.Charts
  Syn.Ps2 Syn.Set1 Syn.Set2 Syn.Lay Syn.Ev Check.Scan Check.Lay Check.C03 Check.C09 Check.C10 Check.C12 Check.C13 Check.C13s Check.C16 Check.C19 Check.C05.
Import ListNotations.
Local Open Scope N_scope.

Notation De := (AnyLayout_De105Key De105Key_mk).
Notation Fr := (AnyLayout_Azerty Azerty_mk).
Notation Col := (AnyLayout_Colemak Colemak_mk).

(* C09: letter keys exist where position and letter differ, and the theorem's premises hold for them *)
Example c09_de_y_types_z : letter_of syn_lay_map De KeyCode_Y = Some 122. Proof. reflexivity. Qed.
Example c09_colemak_r_types_p : letter_of syn_lay_map Col KeyCode_R = Some 112. Proof. reflexivity. Qed.
Example c09_azerty_q_types_a : letter_of syn_lay_map Fr KeyCode_Q = Some 97. Proof. reflexivity. Qed.
Example c09_premises : ctrl_held (Modifiers_mk true false false true true true false false true) = true. Proof. reflexivity. Qed.
Example c09_letter_keys_per_layout :
  map (fun l => length (filter (fun k => match letter_of syn_lay_map l k with Some _ => true | None => false end) all_KeyCode)) all_AnyLayout
  = [26; 26; 26; 26; 26; 26; 26; 26; 26; 26]%nat.
Proof. vm_compute. reflexivity. Qed.

(* C10: cased keys include national letters; uncased keys exist *)
Example c10_de_oe_cased : cased syn_lay_map De KeyCode_Oem1 = true. Proof. reflexivity. Qed.
Example c10_fr_m_uncased : cased syn_lay_map Fr KeyCode_M = false. Proof. reflexivity. Qed.
Example c10_cased_keys_per_layout :
  map (fun l => length (filter (cased syn_lay_map l) all_KeyCode)) all_AnyLayout = [26; 26; 26; 26; 26; 26; 26; 29; 29; 29]%nat.
Proof. vm_compute. reflexivity. Qed.

(* C03: every layout has 47-49 chart keys, and every level is selected by many records *)
Example c03_levels : length (filter (fun m => negb (Modifiers_capslock m) && negb (altgr_held m) && shift_held m) all_Modifiers) = 60%nat.
Proof. vm_compute. reflexivity. Qed.

(* C12: the witness for a character that needs AltGr *)
Example c12_de_brace : types_at syn_lay_map De 123 KeyCode_Key7 m_altgr = true. Proof. reflexivity. Qed.

(* C13 / C19: sequences that decode to events exist in all three prefix contexts, make and break *)
Example c13_home : last_out syn_set2 (seq_set2 PE0 true 0x6C) = Ret (Ok (Some (KeyEvent_mk KeyCode_Home KeyState_Up))). Proof. reflexivity. Qed.
Example c13_home_set1 : last_out syn_set1 (seq_set1 PE0 true 0x47) = Ret (Ok (Some (KeyEvent_mk KeyCode_Home KeyState_Up))). Proof. reflexivity. Qed.
Example c19_pause : last_out syn_set2 (make_seq Set2 PE1 0x14) = Ret (Ok (Some (KeyEvent_mk KeyCode_RControl2 KeyState_Down))). Proof. reflexivity. Qed.
Example c19_pressable : (length (down_keys syn_set1 Set1), length (down_keys syn_set2 Set2)) = (121, 121)%nat.
Proof. vm_compute. reflexivity. Qed.

(* C01: the automaton's run on a real sequence (Print Screen make) is not silent *)
Example c01_print_screen : outs auto2 ctx2_init [0xE0; 0x12; 0xE0; 0x7C]
  = Ret [Ok None; Ok (Some (KeyEvent_mk KeyCode_RAlt2 KeyState_Down)); Ok None; Ok (Some (KeyEvent_mk KeyCode_PrintScreen KeyState_Down))].
Proof. reflexivity. Qed.

(* C05: accepted and rejected frames both exist *)
Example c05_counts : (length (filter accepted (all_below 2048)), length (filter (fun w => negb (accepted w)) (all_below 2048))) = (256, 1792)%nat.
Proof. vm_compute. reflexivity. Qed.

(* C04: a history on which the declarative reading is non-trivial (Pause does not toggle NumLock) *)
Example c04_pause :
  after [KeyEvent_mk KeyCode_RControl2 KeyState_Down; KeyEvent_mk KeyCode_NumpadLock KeyState_Down;
         KeyEvent_mk KeyCode_RControl2 KeyState_Up; KeyEvent_mk KeyCode_NumpadLock KeyState_Up;
         KeyEvent_mk KeyCode_NumpadLock KeyState_Down; KeyEvent_mk KeyCode_LShift KeyState_Down]
  = Modifiers_mk true false false false false false false false false.
Proof. reflexivity. Qed.

(* C16: raw52 has 52 distinct keys *)
Example c16_raw52 : (length raw52, nodup_by KeyCode_eqb raw52) = (52%nat, true). Proof. vm_compute. reflexivity. Qed.

(* C13 (stream level): the premise `good_s` is met by a stream that mixes keys of all three prefix classes,
   a release and two pass-through bytes (a command acknowledgement and a resend request) *)
Example c13_stream_premise :
  forallb (fun x => match x with
                    | SKey t => considered syn_set2 t
                    | SJunk b => (b <? 256)%N && passthrough b
                    end)
          [SKey (P0, false, 0x1C%N); SJunk 0xFA%N; SKey (PE0, false, 0x6C%N);
           SKey (PE0, true, 0x6C%N); SJunk 0xFE%N; SKey (PE1, false, 0x14%N)] = true.
Proof. vm_compute. reflexivity. Qed.

(* C19 (in any history): complete sequences exist in both sets, including undefined ones *)
Example c19_history_premise :
  (complete Set2 PE0 0x1C%N, complete Set1 P0 0x5E%N,
   complete Set1 P0 0x60%N) = (true, true, false).
Proof. vm_compute. reflexivity. Qed.
