(* Running operation sequences through the generated Keyboard functions (for the correspondence of the
   composed object with the real crate; see tools/seqgen.py).  L := AnyLayout with the generated
   AnyLayout_map_keycode as dictionary, S := ScancodeSet1 / ScancodeSet2 with their advance_state. *)
From Coq Require Import NArith Bool List.
From PK Require Import Base.Outcome Gen.All Impl Enc.
Import ListNotations.
Local Open Scope N_scope.

Inductive kop : Type := KBit (b : bool) | KWord (w : N) | KByte (b : N) | KEvent (k s : N) | KClear | KMode (m : N).

Definition layout_of (i : N) : AnyLayout := nth (N.to_nat i) all_AnyLayout (AnyLayout_Us104Key Us104Key_mk).
Definition mode_of (i : N) : HandleControl := match i with 0 => HandleControl_MapLettersToUnicode | _ => HandleControl_Ignore end.
Definition key_of (i : N) : KeyCode := match KeyCode_of_tag i with Some k => k | None => KeyCode_Escape end.
Definition kstate_of (i : N) : KeyState := match KeyState_of_tag i with Some s => s | None => KeyState_Up end.

Definition enc_dec (o : outcome (option DecodedKey)) : list N :=
  match o with
  | Panic => [0]
  | Ret None => [5]
  | Ret (Some (DecodedKey_Unicode c)) => [6; c]
  | Ret (Some (DecodedKey_RawKey k)) => [7; KeyCode_tag k]
  end.

Section Run.
  Context {S : Type}.
  Variable adv : S -> N -> outcome (S * Result (option KeyEvent) Error).
  Variable enc_scan_state : S -> N.
  Notation f := AnyLayout_map_keycode.
  Definition KB := Keyboard AnyLayout S.

  (* one operation: the encoded result(s) and the new keyboard; None = the model panicked *)
  Definition step (kb : KB) (op : kop) : option (KB * list N) :=
    let after_sc (r : outcome (KB * Result (option KeyEvent) Error)) : option (KB * list N) :=
      match r with
      | Panic => None
      | Ret (kb', res) =>
          match res with
          | Ok (Some ev) =>
              match Keyboard_process_keyevent f adv kb' ev with
              | Ret (kb'', d) => Some (kb'', enc_sc (Ret res) ++ enc_dec (Ret d))
              | Panic => None
              end
          | _ => Some (kb', enc_sc (Ret res))
          end
      end in
    match op with
    | KBit b => after_sc (Keyboard_add_bit f adv kb b)
    | KWord w => after_sc (Keyboard_add_word f adv kb w)
    | KByte b => after_sc (Keyboard_add_byte f adv kb b)
    | KEvent k s => match Keyboard_process_keyevent f adv kb (KeyEvent_mk (key_of k) (kstate_of s)) with
                    | Ret (kb', d) => Some (kb', enc_dec (Ret d)) | Panic => None end
    | KClear => match Keyboard_clear f adv kb with Ret (kb', _) => Some (kb', [8]) | Panic => None end
    | KMode m => match Keyboard_set_ctrl_handling f adv kb (mode_of m) with Ret (kb', _) => Some (kb', [9]) | Panic => None end
    end.

  Fixpoint run_ops (kb : KB) (ops : list kop) (acc : list (list N)) : list (list N) * option KB :=
    match ops with
    | [] => (rev acc, Some kb)
    | op :: rest => match step kb op with
                    | Some (kb', r) => run_ops kb' rest (r :: acc)
                    | None => (rev ([0] :: acc), None)
                    end
    end.

  Definition enc_kb (kb : KB) : list N :=
    [Ps2Decoder_register (Keyboard_ps2_decoder kb); Ps2Decoder_num_bits (Keyboard_ps2_decoder kb);
     enc_scan_state (Keyboard_scancode_set kb);
     bits_of_mods (EventDecoder_modifiers (Keyboard_event_decoder kb));
     HandleControl_tag (EventDecoder_handle_ctrl (Keyboard_event_decoder kb))].

  Definition run_with (s0 : outcome S) (layout mode : N) (ops : list kop) : list (list N) * list N :=
    match s0 with
    | Ret s =>
        match Keyboard_new f adv s (layout_of layout) (mode_of mode) with
        | Ret kb => let '(rs, fin) := run_ops kb ops [] in (rs, match fin with Some k => enc_kb k | None => [0] end)
        | Panic => ([], [0])
        end
    | Panic => ([], [0])
    end.
End Run.

Definition run_case (setn layout mode : N) (ops : list kop) : list (list N) * list N :=
  match setn with
  | 1 => run_with ScancodeSet1_advance_state (fun s => DecodeState_tag (ScancodeSet1_state s)) ScancodeSet1_new layout mode ops
  | _ => run_with ScancodeSet2_advance_state (fun s => DecodeState_tag (ScancodeSet2_state s)) ScancodeSet2_new layout mode ops
  end.
