(* Reference scancode tables: the IBM/Microsoft Set 1 and Set 2 assignments as printed in the README
   conversion table, one row per key, and the i8042 controller's Set 2 -> Set 1 translation table.
   Hand-maintained; independent of src/scancodes.  Two README rows are corrected here, because they
   duplicate the code of the row above them, which a one-to-one table cannot: NumpadEnter Set 2 is
   E0 5A (README prints E075) and Apps Set 1 is E0 5D (README prints E05C).  The self-checks at the
   end tie the three transcriptions (Set 1 column, Set 2 column, i8042 table) to each other. *)
From Coq Require Import NArith Bool List.
From PK Require Import Base.Outcome Base.Finite Gen.Types Impl.
Import ListNotations.
Local Open Scope N_scope.

Inductive prefix : Type := P0 | PE0 | PE1.
Definition prefix_eqb (a b : prefix) : bool :=
  match a, b with P0, P0 | PE0, PE0 | PE1, PE1 => true | _, _ => false end.
Lemma prefix_eqb_spec : forall a b, reflect (a = b) (prefix_eqb a b).
Proof. intros [] []; simpl; constructor; congruence. Qed.
#[global] Instance EqbSpec_prefix : EqbSpec prefix_eqb := prefix_eqb_spec.
Definition all_prefix : list prefix := [P0; PE0; PE1].
Lemma all_prefix_complete : forall p, In p all_prefix.
Proof. intros []; simpl; auto. Qed.

Definition scode : Type := prefix * N.
Definition scode_eqb (a b : scode) : bool := prefix_eqb (fst a) (fst b) && N.eqb (snd a) (snd b).

(* (key, Set 1 code, Set 2 code) *)
Definition ref_table : list (KeyCode * option scode * option scode) := [
  (KeyCode_Escape, Some (P0, 0x01), Some (P0, 0x76));
  (KeyCode_F1, Some (P0, 0x3b), Some (P0, 0x05));
  (KeyCode_F2, Some (P0, 0x3c), Some (P0, 0x06));
  (KeyCode_F3, Some (P0, 0x3d), Some (P0, 0x04));
  (KeyCode_F4, Some (P0, 0x3e), Some (P0, 0x0c));
  (KeyCode_F5, Some (P0, 0x3f), Some (P0, 0x03));
  (KeyCode_F6, Some (P0, 0x40), Some (P0, 0x0b));
  (KeyCode_F7, Some (P0, 0x41), Some (P0, 0x83));
  (KeyCode_F8, Some (P0, 0x42), Some (P0, 0x0a));
  (KeyCode_F9, Some (P0, 0x43), Some (P0, 0x01));
  (KeyCode_F10, Some (P0, 0x44), Some (P0, 0x09));
  (KeyCode_F11, Some (P0, 0x57), Some (P0, 0x78));
  (KeyCode_F12, Some (P0, 0x58), Some (P0, 0x07));
  (KeyCode_PrintScreen, Some (PE0, 0x37), Some (PE0, 0x7c));
  (KeyCode_SysRq, Some (P0, 0x54), Some (P0, 0x7f));
  (KeyCode_ScrollLock, Some (P0, 0x46), Some (P0, 0x7e));
  (KeyCode_PauseBreak, None, None);
  (KeyCode_Oem8, Some (P0, 0x29), Some (P0, 0x0e));
  (KeyCode_Key1, Some (P0, 0x02), Some (P0, 0x16));
  (KeyCode_Key2, Some (P0, 0x03), Some (P0, 0x1e));
  (KeyCode_Key3, Some (P0, 0x04), Some (P0, 0x26));
  (KeyCode_Key4, Some (P0, 0x05), Some (P0, 0x25));
  (KeyCode_Key5, Some (P0, 0x06), Some (P0, 0x2e));
  (KeyCode_Key6, Some (P0, 0x07), Some (P0, 0x36));
  (KeyCode_Key7, Some (P0, 0x08), Some (P0, 0x3d));
  (KeyCode_Key8, Some (P0, 0x09), Some (P0, 0x3e));
  (KeyCode_Key9, Some (P0, 0x0a), Some (P0, 0x46));
  (KeyCode_Key0, Some (P0, 0x0b), Some (P0, 0x45));
  (KeyCode_OemMinus, Some (P0, 0x0c), Some (P0, 0x4e));
  (KeyCode_OemPlus, Some (P0, 0x0d), Some (P0, 0x55));
  (KeyCode_Backspace, Some (P0, 0x0e), Some (P0, 0x66));
  (KeyCode_Insert, Some (PE0, 0x52), Some (PE0, 0x70));
  (KeyCode_Home, Some (PE0, 0x47), Some (PE0, 0x6c));
  (KeyCode_PageUp, Some (PE0, 0x49), Some (PE0, 0x7d));
  (KeyCode_NumpadLock, Some (P0, 0x45), Some (P0, 0x77));
  (KeyCode_NumpadDivide, Some (PE0, 0x35), Some (PE0, 0x4a));
  (KeyCode_NumpadMultiply, Some (P0, 0x37), Some (P0, 0x7c));
  (KeyCode_NumpadSubtract, Some (P0, 0x4a), Some (P0, 0x7b));
  (KeyCode_Tab, Some (P0, 0x0f), Some (P0, 0x0d));
  (KeyCode_Q, Some (P0, 0x10), Some (P0, 0x15));
  (KeyCode_W, Some (P0, 0x11), Some (P0, 0x1d));
  (KeyCode_E, Some (P0, 0x12), Some (P0, 0x24));
  (KeyCode_R, Some (P0, 0x13), Some (P0, 0x2d));
  (KeyCode_T, Some (P0, 0x14), Some (P0, 0x2c));
  (KeyCode_Y, Some (P0, 0x15), Some (P0, 0x35));
  (KeyCode_U, Some (P0, 0x16), Some (P0, 0x3c));
  (KeyCode_I, Some (P0, 0x17), Some (P0, 0x43));
  (KeyCode_O, Some (P0, 0x18), Some (P0, 0x44));
  (KeyCode_P, Some (P0, 0x19), Some (P0, 0x4d));
  (KeyCode_Oem4, Some (P0, 0x1a), Some (P0, 0x54));
  (KeyCode_Oem6, Some (P0, 0x1b), Some (P0, 0x5b));
  (KeyCode_Oem5, Some (P0, 0x56), Some (P0, 0x61));
  (KeyCode_Oem7, Some (P0, 0x2b), Some (P0, 0x5d));
  (KeyCode_Delete, Some (PE0, 0x53), Some (PE0, 0x71));
  (KeyCode_End, Some (PE0, 0x4f), Some (PE0, 0x69));
  (KeyCode_PageDown, Some (PE0, 0x51), Some (PE0, 0x7a));
  (KeyCode_Numpad7, Some (P0, 0x47), Some (P0, 0x6c));
  (KeyCode_Numpad8, Some (P0, 0x48), Some (P0, 0x75));
  (KeyCode_Numpad9, Some (P0, 0x49), Some (P0, 0x7d));
  (KeyCode_NumpadAdd, Some (P0, 0x4e), Some (P0, 0x79));
  (KeyCode_CapsLock, Some (P0, 0x3a), Some (P0, 0x58));
  (KeyCode_A, Some (P0, 0x1e), Some (P0, 0x1c));
  (KeyCode_S, Some (P0, 0x1f), Some (P0, 0x1b));
  (KeyCode_D, Some (P0, 0x20), Some (P0, 0x23));
  (KeyCode_F, Some (P0, 0x21), Some (P0, 0x2b));
  (KeyCode_G, Some (P0, 0x22), Some (P0, 0x34));
  (KeyCode_H, Some (P0, 0x23), Some (P0, 0x33));
  (KeyCode_J, Some (P0, 0x24), Some (P0, 0x3b));
  (KeyCode_K, Some (P0, 0x25), Some (P0, 0x42));
  (KeyCode_L, Some (P0, 0x26), Some (P0, 0x4b));
  (KeyCode_Oem1, Some (P0, 0x27), Some (P0, 0x4c));
  (KeyCode_Oem3, Some (P0, 0x28), Some (P0, 0x52));
  (KeyCode_Return, Some (P0, 0x1c), Some (P0, 0x5a));
  (KeyCode_Numpad4, Some (P0, 0x4b), Some (P0, 0x6b));
  (KeyCode_Numpad5, Some (P0, 0x4c), Some (P0, 0x73));
  (KeyCode_Numpad6, Some (P0, 0x4d), Some (P0, 0x74));
  (KeyCode_LShift, Some (P0, 0x2a), Some (P0, 0x12));
  (KeyCode_Z, Some (P0, 0x2c), Some (P0, 0x1a));
  (KeyCode_X, Some (P0, 0x2d), Some (P0, 0x22));
  (KeyCode_C, Some (P0, 0x2e), Some (P0, 0x21));
  (KeyCode_V, Some (P0, 0x2f), Some (P0, 0x2a));
  (KeyCode_B, Some (P0, 0x30), Some (P0, 0x32));
  (KeyCode_N, Some (P0, 0x31), Some (P0, 0x31));
  (KeyCode_M, Some (P0, 0x32), Some (P0, 0x3a));
  (KeyCode_OemComma, Some (P0, 0x33), Some (P0, 0x41));
  (KeyCode_OemPeriod, Some (P0, 0x34), Some (P0, 0x49));
  (KeyCode_Oem2, Some (P0, 0x35), Some (P0, 0x4a));
  (KeyCode_RShift, Some (P0, 0x36), Some (P0, 0x59));
  (KeyCode_ArrowUp, Some (PE0, 0x48), Some (PE0, 0x75));
  (KeyCode_Numpad1, Some (P0, 0x4f), Some (P0, 0x69));
  (KeyCode_Numpad2, Some (P0, 0x50), Some (P0, 0x72));
  (KeyCode_Numpad3, Some (P0, 0x51), Some (P0, 0x7a));
  (KeyCode_NumpadEnter, Some (PE0, 0x1c), Some (PE0, 0x5a));
  (KeyCode_LControl, Some (P0, 0x1d), Some (P0, 0x14));
  (KeyCode_LWin, Some (PE0, 0x5b), Some (PE0, 0x1f));
  (KeyCode_LAlt, Some (P0, 0x38), Some (P0, 0x11));
  (KeyCode_Spacebar, Some (P0, 0x39), Some (P0, 0x29));
  (KeyCode_RAltGr, Some (PE0, 0x38), Some (PE0, 0x11));
  (KeyCode_RWin, Some (PE0, 0x5c), Some (PE0, 0x27));
  (KeyCode_Apps, Some (PE0, 0x5d), Some (PE0, 0x2f));
  (KeyCode_RControl, Some (PE0, 0x1d), Some (PE0, 0x14));
  (KeyCode_ArrowLeft, Some (PE0, 0x4b), Some (PE0, 0x6b));
  (KeyCode_ArrowDown, Some (PE0, 0x50), Some (PE0, 0x72));
  (KeyCode_ArrowRight, Some (PE0, 0x4d), Some (PE0, 0x74));
  (KeyCode_Numpad0, Some (P0, 0x52), Some (P0, 0x70));
  (KeyCode_NumpadPeriod, Some (P0, 0x53), Some (P0, 0x71));
  (KeyCode_Oem9, Some (P0, 0x7b), Some (P0, 0x67));
  (KeyCode_Oem10, Some (P0, 0x79), Some (P0, 0x64));
  (KeyCode_Oem11, Some (P0, 0x70), Some (P0, 0x13));
  (KeyCode_Oem12, Some (P0, 0x73), Some (P0, 0x51));
  (KeyCode_Oem13, Some (P0, 0x7d), Some (P0, 0x6a));
  (KeyCode_PrevTrack, Some (PE0, 0x10), Some (PE0, 0x15));
  (KeyCode_NextTrack, Some (PE0, 0x19), Some (PE0, 0x4d));
  (KeyCode_Mute, Some (PE0, 0x20), Some (PE0, 0x23));
  (KeyCode_Calculator, Some (PE0, 0x21), Some (PE0, 0x2b));
  (KeyCode_Play, Some (PE0, 0x22), Some (PE0, 0x34));
  (KeyCode_Stop, Some (PE0, 0x24), Some (PE0, 0x3b));
  (KeyCode_VolumeDown, Some (PE0, 0x2e), Some (PE0, 0x21));
  (KeyCode_VolumeUp, Some (PE0, 0x30), Some (PE0, 0x32));
  (KeyCode_WWWHome, Some (PE0, 0x32), Some (PE0, 0x3a));
  (KeyCode_TooManyKeys, None, Some (P0, 0x00));
  (KeyCode_PowerOnTestOk, None, Some (P0, 0xaa));
  (KeyCode_RControl2, Some (PE1, 0x1d), Some (PE1, 0x14));
  (KeyCode_RAlt2, Some (PE0, 0x2a), Some (PE0, 0x12))
].

Definition lookup (col : KeyCode * option scode * option scode -> option scode) (p : prefix) (c : N) : option KeyCode :=
  match find (fun row => match col row with Some sc => scode_eqb sc (p, c) | None => false end) ref_table with
  | Some (k, _, _) => Some k
  | None => None
  end.

Definition ref1 : prefix -> N -> option KeyCode := lookup (fun row => snd (fst row)).
Definition ref2 : prefix -> N -> option KeyCode := lookup (fun row => snd row).

(* the two status codes of Set 2, reported as one-shot events *)
Definition is_status (k : KeyCode) : bool :=
  match k with KeyCode_TooManyKeys | KeyCode_PowerOnTestOk => true | _ => false end.

(* i8042 translation, Set 2 code -> Set 1 code (row = high nibble of the Set 2 code) *)
Definition xlat_table : list N :=
  [0xff; 0x43; 0x41; 0x3f; 0x3d; 0x3b; 0x3c; 0x58; 0x64; 0x44; 0x42; 0x40; 0x3e; 0x0f; 0x29; 0x59;
   0x65; 0x38; 0x2a; 0x70; 0x1d; 0x10; 0x02; 0x5a; 0x66; 0x71; 0x2c; 0x1f; 0x1e; 0x11; 0x03; 0x5b;
   0x67; 0x2e; 0x2d; 0x20; 0x12; 0x05; 0x04; 0x5c; 0x68; 0x39; 0x2f; 0x21; 0x14; 0x13; 0x06; 0x5d;
   0x69; 0x31; 0x30; 0x23; 0x22; 0x15; 0x07; 0x5e; 0x6a; 0x72; 0x32; 0x24; 0x16; 0x08; 0x09; 0x5f;
   0x6b; 0x33; 0x25; 0x17; 0x18; 0x0b; 0x0a; 0x60; 0x6c; 0x34; 0x35; 0x26; 0x27; 0x19; 0x0c; 0x61;
   0x6d; 0x73; 0x28; 0x74; 0x1a; 0x0d; 0x62; 0x6e; 0x3a; 0x36; 0x1c; 0x1b; 0x75; 0x2b; 0x63; 0x76;
   0x55; 0x56; 0x77; 0x78; 0x79; 0x7a; 0x0e; 0x7b; 0x7c; 0x4f; 0x7d; 0x4b; 0x47; 0x7e; 0x7f; 0x6f;
   0x52; 0x53; 0x50; 0x4c; 0x4d; 0x48; 0x01; 0x45; 0x57; 0x4e; 0x51; 0x4a; 0x37; 0x49; 0x46; 0x54].
Definition xlat (c : N) : option N :=
  if c <? 128 then nth_error xlat_table (N.to_nat c)
  else if c =? 0x83 then Some 0x41
  else if c =? 0x84 then Some 0x54
  else None.

(* --- self-checks of the transcription --- *)

(* every key that has both codes: same prefix, and the Set 1 code is the i8042 image of the Set 2 code *)
Lemma table_consistent_with_i8042 :
  forallb (fun row : KeyCode * option scode * option scode =>
             match row with
             | (_, Some (p1, c1), Some (p2, c2)) =>
                 prefix_eqb p1 p2 && match xlat c2 with Some c => N.eqb c c1 | None => false end
             | _ => true
             end) ref_table = true.
Proof. vm_compute. reflexivity. Qed.

(* no code is listed for two keys, no key is listed twice; every key of the enum has a row *)
Definition nodup_by {A} (eqb : A -> A -> bool) (l : list A) : bool :=
  (fix go (l : list A) : bool := match l with [] => true | x :: r => negb (existsb (eqb x) r) && go r end) l.
Definition somes {A} (l : list (option A)) : list A := flat_map (fun o => match o with Some x => [x] | None => [] end) l.
Lemma table_one_to_one :
  nodup_by scode_eqb (somes (map (fun row => snd (fst row)) ref_table)) &&
  nodup_by scode_eqb (somes (map (fun row => snd row) ref_table)) &&
  nodup_by KeyCode_eqb (map (fun row => fst (fst row)) ref_table) &&
  forallb (fun k => existsb (fun row => KeyCode_eqb k (fst (fst row))) ref_table) all_KeyCode = true.
Proof. vm_compute. reflexivity. Qed.

(* 121 keys in Set 1, 123 in Set 2; only PauseBreak has no code at all *)
Lemma table_counts :
  (N.of_nat (length (somes (map (fun row => snd (fst row)) ref_table))),
   N.of_nat (length (somes (map (fun row => snd row) ref_table))),
   map (fun row => fst (fst row)) (filter (fun row => match row with (_, None, None) => true | _ => false end) ref_table))
  = (121, 123, [KeyCode_PauseBreak]).
Proof. vm_compute. reflexivity. Qed.

(* every code byte used is below 0x80 except Set 2's F7 (0x83) and power-on (0xAA) *)
Lemma table_ranges :
  forallb (fun sc : scode => snd sc <? 128) (somes (map (fun row => snd (fst row)) ref_table)) &&
  forallb (fun sc : scode => (snd sc <? 128) || (snd sc =? 0x83) || (snd sc =? 0xAA)) (somes (map (fun row => snd row) ref_table)) = true.
Proof. vm_compute. reflexivity. Qed.
