(* The event decoder, abstractly: how key events change the modifier record, what a key event
   yields, and the declarative meaning of the modifier record as a function of the history.
   Depends only on the public types KeyCode / KeyState / KeyEvent / Modifiers (not on the decoder's
   private representation, which Spec/Event.v uses). *)
From Coq Require Import NArith Arith Bool List Lia.
From PK Require Import Base.Outcome Base.Finite Gen.Types Impl.
Import ListNotations.

(* the seven momentary modifiers and the field each one drives *)
Definition momentary (k : KeyCode) : option (bool -> Modifiers -> Modifiers) :=
  match k with
  | KeyCode_LShift => Some Modifiers_set_lshift
  | KeyCode_RShift => Some Modifiers_set_rshift
  | KeyCode_LControl => Some Modifiers_set_lctrl
  | KeyCode_RControl => Some Modifiers_set_rctrl
  | KeyCode_LAlt => Some Modifiers_set_lalt
  | KeyCode_RAltGr => Some Modifiers_set_ralt
  | KeyCode_RControl2 => Some Modifiers_set_rctrl2
  | _ => None
  end.

Definition is_modifier_key (k : KeyCode) : bool :=
  match momentary k with
  | Some _ => true
  | None => match k with KeyCode_CapsLock | KeyCode_NumpadLock => true | _ => false end
  end.

(* one step of the modifier record *)
Definition mods_step (m : Modifiers) (ev : KeyEvent) : Modifiers :=
  let k := KeyEvent_code ev in
  match KeyEvent_state ev with
  | KeyState_SingleShot => m
  | KeyState_Up => match momentary k with Some set => set false m | None => m end
  | KeyState_Down =>
      match momentary k with
      | Some set => set true m
      | None =>
          match k with
          | KeyCode_CapsLock => Modifiers_set_capslock (negb (Modifiers_capslock m)) m
          | KeyCode_NumpadLock =>
              if Modifiers_rctrl2 m then m                      (* Pause = hidden Ctrl + NumLock *)
              else Modifiers_set_numlock (negb (Modifiers_numlock m)) m
          | _ => m
          end
      end
  end.

(* what a key event yields; [consult k m hc] is the installed layout's answer *)
Definition event_result {A} (raw : KeyCode -> A) (consult : KeyCode -> A) (m : Modifiers) (ev : KeyEvent) : option A :=
  let k := KeyEvent_code ev in
  match KeyEvent_state ev with
  | KeyState_Down =>
      if is_modifier_key k then
        Some (raw (match k with
                   | KeyCode_NumpadLock => if Modifiers_rctrl2 m then KeyCode_PauseBreak else k
                   | _ => k end))
      else Some (consult k)
  | _ => None
  end.

Definition initial_mods : Modifiers := Modifiers_mk false false false false true false false false false.

(* --- the declarative reading of the modifier record --- *)

(* the state (Down/Up) of the most recent Down/Up event for key K in history h (oldest first) *)
Fixpoint last_event (K : KeyCode) (h : list KeyEvent) : option KeyState :=
  match h with
  | [] => None
  | ev :: rest =>
      match last_event K rest with
      | Some s => Some s
      | None =>
          if KeyCode_eqb (KeyEvent_code ev) K then
            match KeyEvent_state ev with
            | KeyState_SingleShot => None
            | s => Some s
            end
          else None
      end
  end.
Definition held (K : KeyCode) (h : list KeyEvent) : bool :=
  match last_event K h with Some KeyState_Down => true | _ => false end.

Definition is_down_of (K : KeyCode) (ev : KeyEvent) : bool :=
  KeyCode_eqb (KeyEvent_code ev) K && match KeyEvent_state ev with KeyState_Down => true | _ => false end.

(* parity of the presses of K; with [gate], only presses made while gate (prefix) is false count *)
Fixpoint parity_gated (K : KeyCode) (gate : list KeyEvent -> bool) (pre h : list KeyEvent) : bool :=
  match h with
  | [] => false
  | ev :: rest =>
      xorb (is_down_of K ev && negb (gate pre)) (parity_gated K gate (pre ++ [ev]) rest)
  end.

Definition after (h : list KeyEvent) : Modifiers :=
  Modifiers_mk (held KeyCode_LShift h) (held KeyCode_RShift h) (held KeyCode_LControl h) (held KeyCode_RControl h)
               (negb (parity_gated KeyCode_NumpadLock (held KeyCode_RControl2) [] h))
               (parity_gated KeyCode_CapsLock (fun _ => false) [] h)
               (held KeyCode_LAlt h) (held KeyCode_RAltGr h) (held KeyCode_RControl2 h).

Lemma last_event_app : forall K h ev,
  last_event K (h ++ [ev]) =
  if KeyCode_eqb (KeyEvent_code ev) K then
    match KeyEvent_state ev with KeyState_SingleShot => last_event K h | s => Some s end
  else last_event K h.
Proof.
  intros K h ev. induction h as [|e h IH]; simpl.
  - destruct (KeyCode_eqb (KeyEvent_code ev) K); [destruct (KeyEvent_state ev)|]; reflexivity.
  - rewrite IH. destruct (KeyCode_eqb (KeyEvent_code ev) K); [destruct (KeyEvent_state ev)|]; try reflexivity.
Qed.

Lemma parity_gated_app : forall K gate h pre ev,
  parity_gated K gate pre (h ++ [ev]) =
  xorb (parity_gated K gate pre h) (is_down_of K ev && negb (gate (pre ++ h))).
Proof.
  intros K gate h. induction h as [|e h IH]; intros pre ev; simpl.
  - rewrite app_nil_r. destruct (is_down_of K ev && negb (gate pre)); reflexivity.
  - rewrite IH. rewrite <- app_assoc. simpl.
    destruct (is_down_of K e && negb (gate pre)), (parity_gated K gate (pre ++ [e]) h),
             (is_down_of K ev && negb (gate (pre ++ e :: h))); reflexivity.
Qed.

Lemma held_app : forall K h ev,
  held K (h ++ [ev]) =
  if KeyCode_eqb (KeyEvent_code ev) K then
    match KeyEvent_state ev with KeyState_Down => true | KeyState_Up => false | KeyState_SingleShot => held K h end
  else held K h.
Proof.
  intros K h ev. unfold held. rewrite last_event_app.
  destruct (KeyCode_eqb (KeyEvent_code ev) K); [destruct (KeyEvent_state ev)|]; reflexivity.
Qed.

(* the modifier record after any history is its declarative reading *)
Theorem history : forall h, fold_left mods_step h initial_mods = after h.
Proof.
  intros h. induction h as [|ev h IH] using rev_ind; [reflexivity|].
  rewrite fold_left_app. cbn [fold_left]. rewrite IH. unfold after.
  rewrite !held_app, !parity_gated_app. cbn [app].
  set (a1 := held KeyCode_LShift h). set (a2 := held KeyCode_RShift h). set (a3 := held KeyCode_LControl h).
  set (a4 := held KeyCode_RControl h). set (a5 := parity_gated KeyCode_NumpadLock (held KeyCode_RControl2) [] h).
  set (a6 := parity_gated KeyCode_CapsLock (fun _ => false) [] h). set (a7 := held KeyCode_LAlt h).
  set (a8 := held KeyCode_RAltGr h). set (a9 := held KeyCode_RControl2 h).
  clearbody a1 a2 a3 a4 a5 a6 a7 a8 a9. clear IH h.
  destruct ev as [k s]. unfold is_down_of, mods_step. cbn [KeyEvent_code KeyEvent_state].
  destruct k, s; vm_compute; try reflexivity;
    destruct a5, a6; try reflexivity; destruct a9; reflexivity.
Qed.
