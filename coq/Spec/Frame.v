(* PS/2 frames (device-to-host): start bit 0, eight data bits LSB first, odd parity, stop bit 1.
   Written from the protocol description; mentions nothing of the code. *)
From Coq Require Import NArith Bool List.
From PK Require Import Base.Outcome Gen.Types Impl.
Import ListNotations.
Local Open Scope N_scope.

Definition fbit (w i : N) : bool := N.testbit w i.

(* the eight data bits, bit 1 of the frame being the least significant *)
Definition frame_data (w : N) : N := (w / 2) mod 256.

(* number of ones among the eight data bits and the parity bit is odd *)
Definition odd_ones (w : N) : bool :=
  xorb (fbit w 1) (xorb (fbit w 2) (xorb (fbit w 3) (xorb (fbit w 4) (xorb (fbit w 5)
  (xorb (fbit w 6) (xorb (fbit w 7) (xorb (fbit w 8) (fbit w 9)))))))).

Definition check (w : N) : Result N Error :=
  if fbit w 0 then Err Error_BadStartBit
  else if negb (fbit w 10) then Err Error_BadStopBit
  else if odd_ones w then Ok (frame_data w)
  else Err Error_ParityError.

Definition accepted (w : N) : bool := negb (fbit w 0) && fbit w 10 && odd_ones w.

(* the frame a keyboard sends for byte b *)
Definition parity_bit (b : N) : bool :=
  negb (xorb (N.testbit b 0) (xorb (N.testbit b 1) (xorb (N.testbit b 2) (xorb (N.testbit b 3)
       (xorb (N.testbit b 4) (xorb (N.testbit b 5) (xorb (N.testbit b 6) (N.testbit b 7)))))))).
Definition encode (b : N) : N := 2 * b + (if parity_bit b then 512 else 0) + 1024.

(* the word made of a list of bits, first bit = bit 0 *)
Fixpoint word_of_bits (bs : list bool) : N :=
  match bs with
  | [] => 0
  | b :: rest => N.b2n b + 2 * word_of_bits rest
  end.

(* --- the abstract bit-serial decoder: collect bits; on the eleventh, decode the whole word --- *)
Inductive bit_op : Type := Bit (b : bool) | Clear.

Definition fstate : Type := list bool.      (* bits received so far in this frame, oldest first *)

Definition fstep (acc : fstate) (op : bit_op) : fstate * Result (option N) Error :=
  match op with
  | Clear => ([], Ok None)
  | Bit b =>
      let acc' := acc ++ [b] in
      if Nat.eqb (length acc') 11 then
        ([], match check (word_of_bits acc') with Ok d => Ok (Some d) | Err e => Err e end)
      else (acc', Ok None)
  end.

(* --- self-checks of this specification (Appendix D of DESIGN.md) --- *)
Definition all_words : list N := all_below 2048.
Definition all_bytes_ : list N := all_below 256.

Lemma roundtrip_b : forallb (fun b => match check (encode b) with Ok d => N.eqb d b | Err _ => false end) all_bytes_ = true.
Proof. vm_compute. reflexivity. Qed.

Definition flip (w i : N) : N := N.lxor w (2 ^ i).
Definition all_bitpos : list N := all_below 11.

(* every single-bit corruption of every valid frame is rejected (256 x 11 cases) *)
Lemma single_flip_rejected_b :
  forallb (fun b => forallb (fun i => negb (accepted (flip (encode b) i))) all_bitpos) all_bytes_ = true.
Proof. vm_compute. reflexivity. Qed.

(* a double-bit corruption is never accepted as the original byte's frame with a wrong verdict:
   it is rejected, or it is another valid frame (parity cannot see two flips) - counted, not claimed *)
Definition double_flips_accepted : N :=
  N.of_nat (length (filter (fun x => x)
    (flat_map (fun b => flat_map (fun i => map (fun j => (i <? j) && accepted (flip (flip (encode b) i) j)) all_bitpos) all_bitpos) all_bytes_))).

(* the error reported is BadStart, else BadStop, else Parity *)
Lemma error_order_b :
  forallb (fun w => match check w with
                    | Ok d => accepted w && N.eqb d (frame_data w)
                    | Err Error_BadStartBit => fbit w 0
                    | Err Error_BadStopBit => negb (fbit w 0) && negb (fbit w 10)
                    | Err Error_ParityError => negb (fbit w 0) && fbit w 10 && negb (odd_ones w)
                    | Err _ => false
                    end) all_words = true.
Proof. vm_compute. reflexivity. Qed.

Lemma encode_injective_b :
  forallb (fun a => forallb (fun b => implb (N.eqb (encode a) (encode b)) (N.eqb a b)) all_bytes_) all_bytes_ = true.
Proof. vm_compute. reflexivity. Qed.
