(* Operations on an event decoder and the key events among them (the abstract step and result are in
   Spec/Mods.v; the abstract decoder as a function on the generated three-field record is Spec/EventRec.v). *)
From Coq Require Import NArith Arith Bool List Lia.
From PK Require Import Base.Outcome Base.Finite Gen.Types Impl.
From PK Require Export Spec.Mods.
Import ListNotations.

(* the whole decoder, parametric in the layout implementation f *)
Section Process.
  Context {L : Type} (f : L -> KeyCode -> Modifiers -> HandleControl -> outcome DecodedKey).

  Inductive ev_op : Type :=
  | OpEvent (ev : KeyEvent)
  | OpMode (hc : HandleControl)
  | OpLayout (l : L).

  Definition events_of (ops : list ev_op) : list KeyEvent :=
    flat_map (fun op => match op with OpEvent ev => [ev] | _ => [] end) ops.
End Process.
Arguments OpEvent {L} ev.
Arguments OpMode {L} hc.
Arguments OpLayout {L} l.

