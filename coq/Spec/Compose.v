(* The combined Keyboard as three independently used stages wired in sequence.  The stages are black
   boxes here: a frame decoder (bit / word / clear), a scancode decoder (adv) and an event decoder (ev_process, ev_set_mode). *)
From Coq Require Import NArith Bool List.
From PK Require Import Base.Outcome Gen.Types Impl.
Import ListNotations.

Section Compose.
  Context {L S : Type}.
  (* the three stages *)
  Variable frame_bit : Ps2Decoder -> bool -> outcome (Ps2Decoder * Result (option N) Error).
  Variable frame_word : Ps2Decoder -> N -> outcome (Result N Error).
  Variable frame_clear : Ps2Decoder -> outcome (Ps2Decoder * unit).
  Variable adv : S -> N -> outcome (S * Result (option KeyEvent) Error).
  Variable ev_process : EventDecoder L -> KeyEvent -> outcome (EventDecoder L * option DecodedKey).
  Variable ev_set_mode : EventDecoder L -> HandleControl -> outcome (EventDecoder L * unit).

  Definition kb := Keyboard L S.
  Definition with_frame (p : Ps2Decoder) (k : kb) : kb := Keyboard_mk p (Keyboard_scancode_set k) (Keyboard_event_decoder k).
  Definition with_scan (s : S) (k : kb) : kb := Keyboard_mk (Keyboard_ps2_decoder k) s (Keyboard_event_decoder k).
  Definition with_ev (d : EventDecoder L) (k : kb) : kb := Keyboard_mk (Keyboard_ps2_decoder k) (Keyboard_scancode_set k) d.

  (* bytes go straight to the scancode decoder; nothing else is touched *)
  Definition spec_add_byte (k : kb) (b : N) : outcome (kb * Result (option KeyEvent) Error) :=
    match adv (Keyboard_scancode_set k) b with
    | Ret (s', r) => Ret (with_scan s' k, r)
    | Panic => Panic
    end.

  (* words go through the frame check; a rejected frame changes nothing at all *)
  Definition spec_add_word (k : kb) (w : N) : outcome (kb * Result (option KeyEvent) Error) :=
    match frame_word (Keyboard_ps2_decoder k) w with
    | Ret (Ok b) => spec_add_byte k b
    | Ret (Err e) => Ret (k, Err e)
    | Panic => Panic
    end.

  (* bits update the frame stage; only a completed, accepted byte reaches the scancode decoder *)
  Definition spec_add_bit (k : kb) (bit : bool) : outcome (kb * Result (option KeyEvent) Error) :=
    match frame_bit (Keyboard_ps2_decoder k) bit with
    | Ret (p', Ok (Some b)) => spec_add_byte (with_frame p' k) b
    | Ret (p', Ok None) => Ret (with_frame p' k, Ok None)
    | Ret (p', Err e) => Ret (with_frame p' k, Err e)
    | Panic => Panic
    end.

  Definition spec_kb_process (k : kb) (ev : KeyEvent) : outcome (kb * option DecodedKey) :=
    match ev_process (Keyboard_event_decoder k) ev with
    | Ret (d', r) => Ret (with_ev d' k, r)
    | Panic => Panic
    end.

  Definition spec_kb_clear (k : kb) : outcome (kb * unit) :=
    match frame_clear (Keyboard_ps2_decoder k) with
    | Ret (p', u) => Ret (with_frame p' k, u)
    | Panic => Panic
    end.

  Definition spec_kb_set_mode (k : kb) (hc : HandleControl) : outcome (kb * unit) :=
    match ev_set_mode (Keyboard_event_decoder k) hc with
    | Ret (d', u) => Ret (with_ev d' k, u)
    | Panic => Panic
    end.
End Compose.
