(* The whole event decoder as a function on the generated EventDecoder record, parametric in the layout
   implementation f.  Mentions the record's constructor, so it exists only while EventDecoder has exactly
   the three fields handle_ctrl, modifiers, layout; the property theorems C04/C14/C08 do not depend on it
   (they speak through the projections), the whole-driver refinement Props/Pipeline.v does. *)
From Coq Require Import NArith Arith Bool List Lia.
From PK Require Import Base.Outcome Base.Finite Gen.Types Impl.
From PK Require Export Spec.Event.
Import ListNotations.

Section Process.
  Context {L : Type} (f : L -> KeyCode -> Modifiers -> HandleControl -> outcome DecodedKey).

  Definition spec_process (d : EventDecoder L) (ev : KeyEvent) : outcome (EventDecoder L * option DecodedKey) :=
    let m := EventDecoder_modifiers d in
    let hc := EventDecoder_handle_ctrl d in
    let d' := EventDecoder_mk hc (mods_step m ev) (EventDecoder_layout d) in
    match event_result (fun k => Ret (DecodedKey_RawKey k)) (fun k => f (EventDecoder_layout d) k m hc) m ev with
    | None => Ret (d', None)
    | Some r => match r with Ret x => Ret (d', Some x) | Panic => Panic end
    end.

  Definition spec_op (d : EventDecoder L) (op : ev_op (L:=L)) : outcome (EventDecoder L * option DecodedKey) :=
    match op with
    | OpEvent ev => spec_process d ev
    | OpMode hc => Ret (EventDecoder_mk hc (EventDecoder_modifiers d) (EventDecoder_layout d), None)
    | OpLayout l => Ret (EventDecoder_mk (EventDecoder_handle_ctrl d) (EventDecoder_modifiers d) l, None)
    end.

End Process.
