(* The transcription in Spec/ScanRef.v (the oracle of C01, C02, C13 and C19) against the conversion table
   that /repo/README.md prints now (Spec/ReadmeTable.v, regenerated on every run by tools/readme2v.py).
   Informational: the rows that differ are printed and copied into the evidence of those properties; a
   difference is a reason to re-read the transcription, not a violation by itself (the README is prose and
   may be edited without the code changing, and two of its rows are misprints as shipped). *)
From Coq Require Import NArith Bool List String.
From PK Require Import Base.Outcome Base.Finite Gen.Types Spec.ScanRef Spec.ReadmeTable.
Import ListNotations.
Local Open Scope N_scope.

Definition oscode_eqb (a b : option scode) : bool :=
  match a, b with
  | Some x, Some y => scode_eqb x y
  | None, None => true
  | _, _ => false
  end.

Definition row_of (t : list (KeyCode * option scode * option scode)) (k : KeyCode) :=
  find (fun row => KeyCode_eqb k (fst (fst row))) t.

(* keys whose README row differs from the transcription (or is missing on one side) *)
Definition readme_diff : list KeyCode :=
  filter (fun k => match row_of ref_table k, row_of readme_table k with
                   | Some (_, a1, a2), Some (_, b1, b2) => negb (oscode_eqb a1 b1 && oscode_eqb a2 b2)
                   | None, None => false
                   | _, _ => true
                   end) all_KeyCode.

Eval vm_compute in ("readme_parsed"%string, readme_parsed).
Eval vm_compute in ("readme_rows"%string, N.of_nat (List.length readme_table)).
Eval vm_compute in ("readme_diff"%string, readme_diff).
