(* The textbook prefix automata for Scancode Set 2 and Set 1, over the reference tables. *)
From Coq Require Import NArith Bool List.
From PK Require Import Base.Outcome Base.Finite Base.Machine Gen.Types Impl Spec.ScanRef.
Import ListNotations.
Local Open Scope N_scope.

Definition key_event (k : KeyCode) (s : KeyState) : sc_result := Ok (Some (KeyEvent_mk k s)).
Definition unknown : sc_result := Err Error_UnknownKeyCode.

(* --- Set 2: context = prefix seen x break flag (F0) seen --- *)
Definition ctx2 : Type := prefix * bool.
Definition ctx2_init : ctx2 := (P0, false).

(* a code byte in context (p, brk): the table decides; the two status codes, unprefixed and
   without F0, are one-shot events *)
Definition code2 (p : prefix) (brk : bool) (c : N) : sc_result :=
  match ref2 p c with
  | Some k =>
      if brk then key_event k KeyState_Up
      else if is_status k && prefix_eqb p P0 then key_event k KeyState_SingleShot
      else key_event k KeyState_Down
  | None => unknown
  end.

Definition step2 (x : ctx2) (b : N) : ctx2 * sc_result :=
  let '(p, brk) := x in
  if brk then (ctx2_init, code2 p true b)                       (* after F0 every byte is a code byte *)
  else if b =? 0xF0 then ((p, true), Ok None)
  else match p with
       | P0 => if b =? 0xE0 then ((PE0, false), Ok None)
               else if b =? 0xE1 then ((PE1, false), Ok None)
               else (ctx2_init, code2 P0 false b)
       | _ => (ctx2_init, code2 p false b)                       (* E0/E1 after a prefix are code bytes *)
       end.

Definition auto2 : machine N sc_result := {| m_st := ctx2; m_step := fun x b => Ret (step2 x b) |}.
Definition all_ctx2 : list ctx2 := [(P0, false); (P0, true); (PE0, false); (PE0, true); (PE1, false); (PE1, true)].
Lemma all_ctx2_complete : forall x, In x all_ctx2.
Proof. intros [[] []]; simpl; auto 7. Qed.
(* the bytes that lead from the initial context to context x *)
Definition path2 (x : ctx2) : list N :=
  (match fst x with P0 => [] | PE0 => [0xE0] | PE1 => [0xE1] end) ++ (if snd x then [0xF0] else []).

(* a well-formed sequence: optional E0/E1, optional F0, one code byte *)
(* from the initial context a well-formed sequence yields silence for every prefix byte and then
   exactly the table's verdict, and leaves the automaton in the initial context - provided the code
   byte is in code position (E0, E1, F0 directly after nothing are prefixes, not codes) *)
Definition code_position (p : prefix) (brk : bool) (c : N) : bool :=
  brk || negb (c =? 0xF0) && (negb (prefix_eqb p P0) || negb ((c =? 0xE0) || (c =? 0xE1))).

(* --- Set 1: context = prefix seen; bit 7 of the code byte means release --- *)
Definition ctx1 : Type := prefix.
Definition code1 (p : prefix) (b : N) : sc_result :=
  match ref1 p (b mod 128) with
  | Some k => key_event k (if b <? 128 then KeyState_Down else KeyState_Up)
  | None => unknown
  end.
Definition step1 (p : ctx1) (b : N) : ctx1 * sc_result :=
  match p with
  | P0 => if b =? 0xE0 then (PE0, Ok None)
          else if b =? 0xE1 then (PE1, Ok None)
          else (P0, code1 P0 b)
  | _ => (P0, code1 p b)
  end.
Definition auto1 : machine N sc_result := {| m_st := ctx1; m_step := fun x b => Ret (step1 x b) |}.
Definition path1 (p : ctx1) : list N := match p with P0 => [] | PE0 => [0xE0] | PE1 => [0xE1] end.
