(* The whole driver, abstractly: what a user of `Keyboard` observes for ANY sequence of calls.
   State: the bits of the frame in progress, the scancode automaton's context, the event decoder's record.
   The usage loop is the documented one: every key event that a feeding call returns is handed to
   process_keyevent at once.  Parametric in the scancode automaton A and the layout dictionary f.
   Mentions no generated function (only generated TYPES: KeyEvent, DecodedKey, EventDecoder record). *)
From Coq Require Import NArith Bool List.
From PK Require Import Base.Outcome Base.Machine Gen.Types Impl Spec.Frame Spec.EventRec.
Import ListNotations.
Local Open Scope N_scope.

Inductive pop : Type :=
| PBit (b : bool) | PWord (w : N) | PByte (b : N) | PEvent (ev : KeyEvent) | PClear | PMode (hc : HandleControl).

(* what a call reports: the feeding calls their scancode-level result and, if that was a key event, what
   process_keyevent made of it *)
Inductive pout : Type :=
| OFeed (r : sc_result) (d : option (option DecodedKey))
| ODec (d : option DecodedKey)
| OUnit.

Definition valid_pop (op : pop) : Prop :=
  match op with PWord w => w < 2048 | PByte b => b < 256 | _ => True end.

Section Pipeline.
  Context {L : Type} (f : L -> KeyCode -> Modifiers -> HandleControl -> outcome DecodedKey).
  Variable A : machine N sc_result.

  Record pst : Type := mk_pst { p_frame : fstate; p_ctx : m_st A; p_dec : EventDecoder L }.

  Definition feed_byte (fr : fstate) (c : m_st A) (d : EventDecoder L) (b : N) : outcome (pst * pout) :=
    match m_step A c b with
    | Ret (c', Ok (Some ev)) =>
        match spec_process f d ev with
        | Ret (d', dk) => Ret (mk_pst fr c' d', OFeed (Ok (Some ev)) (Some dk))
        | Panic => Panic
        end
    | Ret (c', r) => Ret (mk_pst fr c' d, OFeed r None)
    | Panic => Panic
    end.

  Definition pstep (st : pst) (op : pop) : outcome (pst * pout) :=
    let '(mk_pst fr c d) := st in
    match op with
    | PBit b =>
        match fstep fr (Bit b) with
        | (fr', Ok (Some byte)) => feed_byte fr' c d byte
        | (fr', Ok None) => Ret (mk_pst fr' c d, OFeed (Ok None) None)
        | (fr', Err e) => Ret (mk_pst fr' c d, OFeed (Err e) None)
        end
    | PWord w =>
        match check w with
        | Ok byte => feed_byte fr c d byte
        | Err e => Ret (st, OFeed (Err e) None)          (* a rejected frame changes nothing *)
        end
    | PByte b => feed_byte fr c d b
    | PEvent ev =>
        match spec_process f d ev with
        | Ret (d', dk) => Ret (mk_pst fr c d', ODec dk)
        | Panic => Panic
        end
    | PClear => Ret (mk_pst [] c d, OUnit)
    | PMode hc => Ret (mk_pst fr c (EventDecoder_mk hc (EventDecoder_modifiers d) (EventDecoder_layout d)), OUnit)
    end.

  Definition pipeline : machine pop pout := {| m_st := pst; m_step := pstep |}.

  Definition pinit (c0 : m_st A) (l : L) (hc : HandleControl) : pst :=
    mk_pst [] c0 (EventDecoder_mk hc initial_mods l).
End Pipeline.
Arguments mk_pst {L A} _ _ _.
Arguments p_frame {L A} _.
Arguments p_ctx {L A} _.
Arguments p_dec {L A} _.
