(* G_ext, scancode decoders: transition tables of the compiled crate packaged as ScanImpl *)
From Coq Require Import NArith PArith Bool List FMapPositive.
From PK Require Import Base.Outcome Base.Finite Gen.Types Impl Ext.Set1 Ext.Set2.
Import ListNotations.
Local Open Scope N_scope.

(* transition rows indexed through a binary trie keyed by 256 * state + byte: a look-up must not cost a walk
   down lists with unary indices (a decoder with a memo field has thousands of states) *)
Definition table_map (tbl : list (list (outcome (N * sc_result)))) : PositiveMap.t (outcome (N * sc_result)) :=
  snd (fold_left (fun (acc : N * PositiveMap.t _) row =>
         (fst acc + 1,
          snd (fold_left (fun (a : N * PositiveMap.t _) cell => (fst a + 1, PositiveMap.add (N.succ_pos (256 * fst acc + fst a)) cell (snd a)))
                         row (0, snd acc))))
       tbl (0, PositiveMap.empty _)).
Definition map_step (m : PositiveMap.t (outcome (N * sc_result))) (s b : N) : outcome (N * sc_result) :=
  if b <? 256 then match PositiveMap.find (N.succ_pos (256 * s + b)) m with Some r => r | None => Panic end else Panic.
Definition ext_set1_map := table_map ext_set1_table.
Definition ext_set2_map := table_map ext_set2_table.

Definition ext_set1 : ScanImpl := {|
  sc_st := N; sc_eqb := N.eqb; sc_eqb_ok := EqbSpec_N; sc_init := Ret 0;
  sc_step := map_step ext_set1_map
|}.
Definition ext_set2 : ScanImpl := {|
  sc_st := N; sc_eqb := N.eqb; sc_eqb_ok := EqbSpec_N; sc_init := Ret 0;
  sc_step := map_step ext_set2_map
|}.
