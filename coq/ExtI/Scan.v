(* G_ext, scancode decoders: transition tables of the compiled crate packaged as ScanImpl *)
From Coq Require Import NArith Bool List.
From PK Require Import Base.Outcome Base.Finite Gen.Types Impl Ext.Set1 Ext.Set2.
Import ListNotations.
Local Open Scope N_scope.

Definition table_step (tbl : list (list (outcome (N * sc_result)))) (s b : N) : outcome (N * sc_result) :=
  nth (N.to_nat b) (nth (N.to_nat s) tbl []) Panic.

Definition ext_set1 : ScanImpl := {|
  sc_st := N; sc_eqb := N.eqb; sc_eqb_ok := EqbSpec_N; sc_init := Ret 0;
  sc_step := table_step ext_set1_table
|}.
Definition ext_set2 : ScanImpl := {|
  sc_st := N; sc_eqb := N.eqb; sc_eqb_ok := EqbSpec_N; sc_init := Ret 0;
  sc_step := table_step ext_set2_table
|}.
