(* G_ext, event decoder with a recording layout: decision trees dumped from the compiled crate *)
From Coq Require Import NArith Bool List.
From PK Require Import Base.Outcome Base.Finite Base.Tree Gen.Types Impl Ext.Event.
Import ListNotations.
Local Open Scope N_scope.

Definition mode_is_ignore (hc : HandleControl) : bool :=
  match hc with HandleControl_Ignore => true | HandleControl_MapLettersToUnicode => false end.
Definition mode_of_flag (b : bool) : HandleControl :=
  if b then HandleControl_Ignore else HandleControl_MapLettersToUnicode.

(* ten state bits: the nine modifier flags in field order, then the mode (1 = Ignore) *)
Definition st_bit (s : ev_state) (i : N) : bool := if i =? 9 then mode_is_ignore (snd s) else mod_bit (fst s) i.

Definition eval_bits (s : ev_state) (ts : list (tree bleaf)) : outcome ev_state :=
  match map (teval (st_bit s)) ts with
  | [b0; b1; b2; b3; b4; b5; b6; b7; b8; b9] =>
      let v (l : bleaf) : option bool := match l with BT => Some true | BF => Some false | _ => None end in
      match v b0, v b1, v b2, v b3, v b4, v b5, v b6, v b7, v b8, v b9 with
      | Some x0, Some x1, Some x2, Some x3, Some x4, Some x5, Some x6, Some x7, Some x8, Some x9 =>
          Ret (Modifiers_mk x0 x1 x2 x3 x4 x5 x6 x7 x8, mode_of_flag x9)
      | _, _, _, _, _, _, _, _, _, _ => Panic
      end
  | _ => Panic
  end.

Definition ext_ev_step (s : ev_state) (ev : KeyEvent) : outcome (ev_state * ev_res) :=
  let k := KeyEvent_code ev in
  let ks := KeyEvent_state ev in
  match eval_bits s (ext_ev_bits k ks) with
  | Ret s' =>
      match teval (st_bit s) (ext_ev_res k ks) with
      | RNone => Ret (s', ERNone)
      | RExact => Ret (s', ERCons k (fst s) (snd s))
      | RRaw k' => Ret (s', ERRaw k')
      | RCons k' m mode => Ret (s', ERCons k' (mods_of_bits m) (mode_of_flag (negb (mode =? 0))))
      | RUni c => Ret (s', EROther c)
      | RP | RX => Panic
      end
  | Panic => Panic
  end.

Definition state_of_bits (b : N) : ev_state := (mods_of_bits b, mode_of_flag (N.testbit b 9)).

Definition ext_ev : EvImpl := {|
  ev_init := fun hc => Ret (state_of_bits (match hc with
                                           | HandleControl_MapLettersToUnicode => ext_ev_init_map
                                           | HandleControl_Ignore => ext_ev_init_ignore end));
  ev_reach := fun s => teval (st_bit s) ext_ev_reach;
  ev_step := ext_ev_step;
  ev_setmode := fun s hc => eval_bits s (ext_mode_bits hc)
|}.
