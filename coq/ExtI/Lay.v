(* G_ext, layouts and predicates: decision trees over the nine modifier bits, dumped from the compiled crate *)
From Coq Require Import NArith Bool List.
From PK Require Import Base.Outcome Base.Tree Gen.Types Impl Ext.Lay Ext.Preds.
Import ListNotations.

Definition ext_lay : LayImpl := {|
  lay_map := fun l k m hc => teval (mod_bit m) (ext_obj_tree l k hc);
  any_map := fun l k m hc => teval (mod_bit m) (ext_any_tree l k hc);
  anyref_map := fun l k m hc => teval (mod_bit m) (ext_ref_tree l k hc)
|}.

Definition ext_preds : PredImpl := {|
  p_is_shifted := fun m => teval (mod_bit m) ext_is_shifted;
  p_is_ctrl := fun m => teval (mod_bit m) ext_is_ctrl;
  p_is_alt := fun m => teval (mod_bit m) ext_is_alt;
  p_is_altgr := fun m => teval (mod_bit m) ext_is_altgr;
  p_is_caps := fun m => teval (mod_bit m) ext_is_caps
|}.
