(* G_ext, frame decoder: the tables dumped from the compiled crate packaged as a Ps2Impl *)
From Coq Require Import NArith PArith Bool List FMapPositive.
From PK Require Import Base.Outcome Base.Finite Base.Tree Gen.Types Impl Ext.Ps2.
Import ListNotations.
Local Open Scope N_scope.

(* the rows indexed through a binary trie: a look-up must not cost a walk down a list of (possibly tens of
   thousands of) states *)
Definition ext_ps2_map :=
  snd (fold_left (fun (acc : positive * PositiveMap.t _) r => (Pos.succ (fst acc), PositiveMap.add (fst acc) r (snd acc)))
                 ext_ps2_table (1%positive, PositiveMap.empty _)).
Definition ext_ps2_row (s : N) :=
  match PositiveMap.find (N.succ_pos s) ext_ps2_map with
  | Some r => r
  | None => (Panic, Panic, Panic)
  end.

Definition ext_ps2 : Ps2Impl := {|
  ps_st := N;
  ps_eqb := N.eqb;
  ps_eqb_ok := EqbSpec_N;
  ps_init := Ret 0;
  ps_add_bit := fun s b => let '(r0, r1, _) := ext_ps2_row s in if b then r1 else r0;
  ps_clear := fun s => let '(_, _, c) := ext_ps2_row s in c;
  (* the harness compared add_word in every reachable state with the initial state's table;
     [ext_ps2_word_state_dependence] counts the differences *)
  ps_add_word := fun _ w => teval (fun i => N.testbit w (15 - i)) ext_ps2_word_tree
|}.
