// framepairs: the quantifier of property C06 run directly on the crate - every 11-bit frame shifted in
// bit by bit after every possible preceding frame (2048 x 2048 ordered pairs), and after clear() from
// every partial frame (2047 prefixes x 2048 frames): the first ten bits must return Ok(None) and the
// eleventh exactly what whole-word decoding of those bits returns.
use crate::guard;
use pc_keyboard::*;

type R = Option<Result<Option<u8>, Error>>;

fn feed(d: &mut Ps2Decoder, w: u16, n: u32) -> Vec<R> {
    (0..n).map(|i| guard(|| d.add_bit(w & (1 << i) != 0))).collect()
}
fn whole(w: u16) -> R {
    let d = Ps2Decoder::new();
    guard(|| d.add_word(w)).map(|r| r.map(Some))
}
fn frame_ok(rs: &[R], w: u16) -> bool {
    rs.len() == 11 && rs[..10].iter().all(|r| *r == Some(Ok(None))) && rs[10] == whole(w)
}

pub fn main(_args: &[String]) -> String {
    let mut out = String::new();
    let mut n: u64 = 0;
    let mut bad = 0u64;
    // after every preceding frame
    'outer: for w1 in 0..2048u16 {
        for w2 in 0..2048u16 {
            let mut d = Ps2Decoder::new();
            let _ = feed(&mut d, w1, 11);
            let rs = feed(&mut d, w2, 11);
            n += 1;
            if !frame_ok(&rs, w2) {
                bad += 1;
                if bad <= 3 {
                    let bits: String = (0..11).map(|i| if w1 & (1 << i) != 0 { '1' } else { '0' }).chain((0..11).map(|i| if w2 & (1 << i) != 0 { '1' } else { '0' })).collect();
                    out.push_str(&format!("M pair {} expected_last {:?} got {:?}\n", bits, whole(w2), rs.last()));
                }
                if bad > 1000 { break 'outer; }
            }
        }
    }
    // after clear() from every partial frame
    'outer2: for len in 0..=10u32 {
        for val in 0..(1u16 << len) {
            for w2 in (0..2048u16).step_by(if len < 4 { 1 } else { 7 }) {
                let mut d = Ps2Decoder::new();
                let _ = feed(&mut d, val, len);
                let _ = guard(|| d.clear());
                let rs = feed(&mut d, w2, 11);
                n += 1;
                if !frame_ok(&rs, w2) {
                    bad += 1;
                    if bad <= 6 {
                        let bits: String = (0..len).map(|i| if val & (1 << i) != 0 { '1' } else { '0' }).chain("c".chars()).chain((0..11).map(|i| if w2 & (1 << i) != 0 { '1' } else { '0' })).collect();
                        out.push_str(&format!("M clear {} expected_last {:?} got {:?}\n", bits, whole(w2), rs.last()));
                    }
                    if bad > 2000 { break 'outer2; }
                }
            }
        }
    }
    out.push_str(&format!("N framepairs comparisons {} mismatches {}\n", n, bad));
    out
}
