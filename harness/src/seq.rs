// Operation sequences on the composed Keyboard (filled in later).
pub fn main(_args: &[String]) -> String {
    String::new()
}
