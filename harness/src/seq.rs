// Operation sequences on the composed Keyboard (tools/seqgen.py).  Input: one sequence per line,
// "<set> <layout index> <mode> | op op ..." with ops b0 b1 w<word> y<byte> e<key>:<state> c m<mode>.
// Output: one line per sequence: per-operation results in the numeric encoding of coq/Seq.v, then
// "|" and the final state.  An operation returning Ok(Some(event)) is followed by process_keyevent(event).
use crate::gen_keys::{key_index, ALL_KEYS};
use crate::{any_by_name, guard, Dbg, KSTATES, MODES};
use pc_keyboard::*;

const LAYOUTS: [&str; 10] = ["DVP104Key", "Dvorak104Key", "Us104Key", "Uk105Key", "Jis109Key", "Azerty", "Colemak", "De105Key", "No105Key", "FiSe105Key"];

fn err_idx(e: Error) -> usize {
    match e { Error::BadStartBit => 0, Error::BadStopBit => 1, Error::ParityError => 2, Error::UnknownKeyCode => 3, _ => 99 }
}
fn kstate_idx(s: KeyState) -> usize { match s { KeyState::Up => 0, KeyState::Down => 1, KeyState::SingleShot => 2 } }

fn enc_dec(d: Option<DecodedKey>) -> String {
    match d {
        None => "5".to_string(),
        Some(DecodedKey::Unicode(c)) => format!("6 {}", c as u32),
        Some(DecodedKey::RawKey(k)) => format!("7 {}", key_index(k)),
    }
}

fn run<S: ScancodeSet + std::fmt::Debug>(set: S, layout: usize, mode: usize, ops: &[&str]) -> String {
    let mut k = Keyboard::new(set, Dbg(any_by_name(LAYOUTS[layout])), MODES[mode]);
    let mut out: Vec<String> = Vec::new();
    let mut dead = false;
    for op in ops {
        let r: Option<String> = (|| {
            let sc = |k: &mut Keyboard<Dbg, S>, r: Result<Option<KeyEvent>, Error>| -> Option<String> {
                Some(match r {
                    Ok(None) => "1".to_string(),
                    Err(e) => format!("3 {}", err_idx(e)),
                    Ok(Some(ev)) => {
                        let head = format!("2 {} {}", key_index(ev.code), kstate_idx(ev.state));
                        let d = guard(|| k.process_keyevent(ev))?;
                        format!("{} {}", head, enc_dec(d))
                    }
                })
            };
            let c = op.as_bytes()[0];
            let arg = &op[1..];
            match c {
                b'b' => { let r = guard(|| k.add_bit(arg == "1"))?; sc(&mut k, r) }
                b'w' => { let w: u16 = arg.parse().unwrap(); let r = guard(|| k.add_word(w))?; sc(&mut k, r) }
                b'y' => { let b: u8 = arg.parse().unwrap(); let r = guard(|| k.add_byte(b))?; sc(&mut k, r) }
                b'e' => {
                    let (a, b) = arg.split_once(':').unwrap();
                    let ev = KeyEvent::new(ALL_KEYS[a.parse::<usize>().unwrap()], KSTATES_BY_TAG[b.parse::<usize>().unwrap()]);
                    let d = guard(|| k.process_keyevent(ev))?;
                    Some(enc_dec(d))
                }
                b'c' => { guard(|| k.clear())?; Some("8".to_string()) }
                _ => { let m: usize = arg.parse().unwrap(); guard(|| k.set_ctrl_handling(MODES[m]))?; Some("9".to_string()) }
            }
        })();
        match r {
            Some(s) => out.push(s),
            None => { out.push("0".to_string()); dead = true; break; }
        }
    }
    let fin = if dead { "0".to_string() } else { format!("{:?}", k) };
    format!("{} | {}", out.join(" ; "), fin)
}

// KeyState by discriminant order (Up, Down, SingleShot)
const KSTATES_BY_TAG: [KeyState; 3] = [KeyState::Up, KeyState::Down, KeyState::SingleShot];

pub fn main(args: &[String]) -> String {
    let _ = KSTATES;
    let text = std::fs::read_to_string(&args[0]).expect("cannot read the sequence file");
    let mut out = String::new();
    for line in text.lines() {
        let (head, ops) = line.split_once('|').unwrap();
        let h: Vec<usize> = head.split_whitespace().map(|x| x.parse().unwrap()).collect();
        let ops: Vec<&str> = ops.split_whitespace().collect();
        let r = if h[0] == 1 { run(ScancodeSet1::new(), h[1], h[2], &ops) } else { run(ScancodeSet2::new(), h[1], h[2], &ops) };
        out.push_str(&r);
        out.push('\n');
    }
    out
}
