// tablecheck: is every stage really a deterministic function of its Debug-printed state and its input?
// The transition tables (built by breadth-first exploration over Debug renderings, exactly as the dumps
// are) are compared with fresh objects driven by random operation sequences.  A hidden dependence on
// history (a field Debug does not show, a global, interior mutability) shows up as a mismatch.
use crate::gen_keys::ALL_KEYS;
use crate::kbiso::MkSet;
use crate::{guard, Rec, KSTATES, MODES};
use pc_keyboard::*;
use std::collections::HashMap;

struct Rng(u64);
impl Rng {
    fn next(&mut self) -> u64 { let mut x = self.0; x ^= x << 13; x ^= x >> 7; x ^= x << 17; self.0 = x; x }
    fn below(&mut self, n: u64) -> u64 { self.next() % n }
}

fn scan<S: MkSet>(seed: u64, nseq: usize, len: usize) -> String {
    type Res = Option<Result<Option<KeyEvent>, Error>>;
    let mut ids: HashMap<String, usize> = HashMap::new();
    let mut states: Vec<S> = vec![S::mk()];
    ids.insert(format!("{:?}", states[0]), 0);
    let mut rows: Vec<Vec<(usize, Res)>> = Vec::new();
    let mut i = 0;
    while i < states.len() && states.len() <= 4096 {
        let mut row = Vec::with_capacity(256);
        for b in 0..=255u8 {
            let mut s = states[i].clone();
            let r = guard(|| s.advance_state(b));
            let n = if r.is_none() { i } else {
                let key = format!("{:?}", s);
                match ids.get(&key) { Some(&n) => n, None => { let n = states.len(); ids.insert(key, n); states.push(s); n } }
            };
            row.push((n, r));
        }
        rows.push(row);
        i += 1;
    }
    if states.len() > 4096 { return format!("TC {} skipped state-bound\n", S::NAME); }
    let mut rng = Rng(seed | 1);
    let mut bad: Option<Vec<u8>> = None;
    let mut nbad = 0;
    for _ in 0..nseq {
        let mut s = S::mk();
        let mut st = 0usize;
        let mut hist = Vec::new();
        for _ in 0..len {
            // mostly interesting bytes
            let b = match rng.below(4) { 0 => [0xE0u8, 0xE1, 0xF0, 0x00, 0xAA][rng.below(5) as usize], _ => rng.below(256) as u8 };
            hist.push(b);
            let (ns, ref exp) = rows[st][b as usize];
            let got = guard(|| s.advance_state(b));
            if &got != exp { nbad += 1; if bad.is_none() { bad = Some(hist.clone()); } break; }
            if exp.is_none() { break; }
            st = ns;
        }
    }
    let w = bad.map(|h| h.iter().map(|x| x.to_string()).collect::<Vec<_>>().join(",")).unwrap_or_default();
    format!("TC {} sequences {} mismatches {} {}\n", S::NAME, nseq, nbad, w)
}

fn ps2(seed: u64, nseq: usize, len: usize) -> String {
    type Res = Option<Result<Option<u8>, Error>>;
    fn replay(path: &[u8]) -> Ps2Decoder {
        let mut d = Ps2Decoder::new();
        for op in path { match op { 0 => { let _ = guard(|| d.add_bit(false)); } 1 => { let _ = guard(|| d.add_bit(true)); } _ => { let _ = guard(|| d.clear()); } } }
        d
    }
    let mut ids: HashMap<String, usize> = HashMap::new();
    let mut paths: Vec<Vec<u8>> = vec![vec![]];
    ids.insert(format!("{:?}", Ps2Decoder::new()), 0);
    let mut rows: Vec<[(usize, Res); 3]> = Vec::new();
    let mut i = 0;
    while i < paths.len() && paths.len() <= 100_000 {
        let mut row: Vec<(usize, Res)> = Vec::new();
        for op in 0..3u8 {
            let mut d = replay(&paths[i]);
            let r: Res = match op { 0 => guard(|| d.add_bit(false)), 1 => guard(|| d.add_bit(true)), _ => guard(|| { d.clear(); Ok(None) }) };
            let n = if r.is_none() { i } else {
                let key = format!("{:?}", d);
                match ids.get(&key) { Some(&n) => n, None => { let n = paths.len(); ids.insert(key, n); let mut p = paths[i].clone(); p.push(op); paths.push(p); n } }
            };
            row.push((n, r));
        }
        rows.push([row[0].clone(), row[1].clone(), row[2].clone()]);
        i += 1;
    }
    if paths.len() > 100_000 { return "TC ps2 skipped state-bound\n".to_string(); }
    let mut rng = Rng(seed | 1);
    let mut bad: Option<String> = None;
    let mut nbad = 0;
    for _ in 0..nseq {
        let mut d = Ps2Decoder::new();
        let mut st = 0usize;
        let mut hist = String::new();
        for _ in 0..len {
            let op = if rng.below(40) == 0 { 2 } else { rng.below(2) as usize };
            hist.push(['0', '1', 'c'][op]);
            let (ns, ref exp) = rows[st][op];
            let got: Res = match op { 0 => guard(|| d.add_bit(false)), 1 => guard(|| d.add_bit(true)), _ => guard(|| { d.clear(); Ok(None) }) };
            if &got != exp { nbad += 1; if bad.is_none() { bad = Some(hist.clone()); } break; }
            if exp.is_none() { break; }
            st = ns;
        }
    }
    format!("TC ps2 sequences {} mismatches {} {}\n", nseq, nbad, bad.unwrap_or_default())
}

fn event(seed: u64, nseq: usize, len: usize) -> String {
    // table by Debug rendering, states rebuilt by replaying the discovering path
    #[derive(Clone, Copy)]
    enum Op { Ev(usize, usize), Mode(usize) }
    fn apply(d: &mut EventDecoder<Rec>, op: Op) -> Option<Option<DecodedKey>> {
        match op {
            Op::Ev(k, s) => guard(|| d.process_keyevent(KeyEvent::new(ALL_KEYS[k], KSTATES[s]))),
            Op::Mode(m) => guard(|| { d.set_ctrl_handling(MODES[m]); None }),
        }
    }
    let nk = ALL_KEYS.len();
    let mut ops: Vec<Op> = Vec::new();
    for k in 0..nk { for s in 0..3 { ops.push(Op::Ev(k, s)); } }
    ops.push(Op::Mode(0)); ops.push(Op::Mode(1));
    let mut ids: HashMap<String, usize> = HashMap::new();
    let mut paths: Vec<Vec<usize>> = vec![vec![]];
    ids.insert(format!("{:?}", EventDecoder::new(Rec, MODES[0])), 0);
    let replay = |p: &Vec<usize>, ops: &Vec<Op>| { let mut d = EventDecoder::new(Rec, MODES[0]); for o in p { apply(&mut d, ops[*o]); } d };
    let mut rows: Vec<Vec<(usize, Option<Option<DecodedKey>>)>> = Vec::new();
    let mut i = 0;
    while i < paths.len() && paths.len() <= 8192 {
        let mut row = Vec::with_capacity(ops.len());
        for (oi, op) in ops.iter().enumerate() {
            let mut d = replay(&paths[i], &ops);
            let r = apply(&mut d, *op);
            let n = if r.is_none() { i } else {
                let key = format!("{:?}", d);
                match ids.get(&key) { Some(&n) => n, None => { let n = paths.len(); ids.insert(key, n); let mut p = paths[i].clone(); p.push(oi); paths.push(p); n } }
            };
            row.push((n, r));
        }
        rows.push(row);
        i += 1;
    }
    if paths.len() > 8192 { return "TC event skipped state-bound\n".to_string(); }
    let mut rng = Rng(seed | 1);
    let mut nbad = 0;
    let mut bad: Option<String> = None;
    for _ in 0..nseq {
        let mut d = EventDecoder::new(Rec, MODES[0]);
        let mut st = 0usize;
        let mut hist: Vec<String> = Vec::new();
        for _ in 0..len {
            // favour the modifier keys so that many states are visited
            let oi = if rng.below(3) == 0 { let mk = [95usize, 107, 113, 120, 115, 117, 36, 79, 122]; let k = mk[rng.below(9) as usize] % nk; k * 3 + rng.below(3) as usize } else { rng.below(ops.len() as u64) as usize };
            hist.push(match ops[oi] { Op::Ev(k, s) => format!("{:?}:{:?}", ALL_KEYS[k], KSTATES[s]), Op::Mode(m) => format!("mode:{:?}", MODES[m]) });
            let (ns, ref exp) = rows[st][oi];
            let got = apply(&mut d, ops[oi]);
            if &got != exp { nbad += 1; if bad.is_none() { bad = Some(hist.join(" ")); } break; }
            if exp.is_none() { break; }
            st = ns;
        }
    }
    format!("TC event sequences {} mismatches {} {}\n", nseq, nbad, bad.unwrap_or_default())
}

pub fn main(args: &[String]) -> String {
    let seed: u64 = args.first().and_then(|s| s.parse().ok()).unwrap_or(20260929);
    let nseq: usize = args.get(1).and_then(|s| s.parse().ok()).unwrap_or(20000);
    let len: usize = args.get(2).and_then(|s| s.parse().ok()).unwrap_or(40);
    let mut out = String::new();
    out.push_str(&scan::<ScancodeSet1>(seed, nseq, len));
    out.push_str(&scan::<ScancodeSet2>(seed ^ 0x5555, nseq, len));
    out.push_str(&ps2(seed ^ 0xAAAA, nseq, len * 2));
    out.push_str(&event(seed ^ 0x1234, nseq / 4, len));
    out
}
