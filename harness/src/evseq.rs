// evseq: event / mode-change sequences on the real EventDecoder with the recording layout.
// Input line: "<mode> | e<key>:<state> m<mode> ..."; output: per-operation results in the numeric encoding
// used by tools/evspec.py ([1] none, [2 k] raw key, [3 k mods mode] layout consulted with that triple,
// [4 c] another character, [9] mode change, [0] panic), then "|" and the decoder's Debug rendering.
use crate::gen_keys::{key_index, ALL_KEYS};
use crate::{guard, Rec, MODES};
use pc_keyboard::*;

const KS: [KeyState; 3] = [KeyState::Up, KeyState::Down, KeyState::SingleShot];

pub fn main(args: &[String]) -> String {
    let text = std::fs::read_to_string(&args[0]).expect("cannot read the sequence file");
    let mut out = String::new();
    for line in text.lines() {
        let (head, ops) = line.split_once('|').unwrap();
        let mode: usize = head.trim().parse().unwrap();
        let mut d = EventDecoder::new(Rec, MODES[mode]);
        let mut toks: Vec<String> = Vec::new();
        let mut dead = false;
        for op in ops.split_whitespace() {
            if let Some(m) = op.strip_prefix('m') {
                d.set_ctrl_handling(MODES[m.parse::<usize>().unwrap()]);
                toks.push("9".to_string());
                continue;
            }
            let (a, b) = op[1..].split_once(':').unwrap();
            let ev = KeyEvent::new(ALL_KEYS[a.parse::<usize>().unwrap()], KS[b.parse::<usize>().unwrap()]);
            match guard(|| d.process_keyevent(ev)) {
                None => { toks.push("0".to_string()); dead = true; break; }
                Some(None) => toks.push("1".to_string()),
                Some(Some(DecodedKey::RawKey(k))) => toks.push(format!("2 {}", key_index(k))),
                Some(Some(DecodedKey::Unicode(c))) => {
                    let code = c as u32;
                    if (0x20000..0x40000).contains(&code) {
                        let v = code - 0x20000;
                        toks.push(format!("3 {} {} {}", v >> 10, (v >> 1) & 511, v & 1));
                    } else {
                        toks.push(format!("4 {}", code));
                    }
                }
            }
        }
        let fin = if dead { "0".to_string() } else { format!("{:?}", d) };
        out.push_str(&format!("{} | {}\n", toks.join(" ; "), fin));
    }
    out
}
