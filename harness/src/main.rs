// Verification harness for pc-keyboard: dumps complete behaviour tables of the real crate
// (the working tree at /repo, built with --features verif-hooks) in a line-oriented text
// format that tools/ext2v.py turns into Coq data (the G_ext instance of DESIGN.md).
//
// Every call into the crate goes through `guard`, which turns a panic into a table entry.

use pc_keyboard::layouts::*;
use pc_keyboard::*;
use std::collections::HashMap;
use std::fmt::Write as _;
use std::io::Write as _;
use std::panic::{catch_unwind, AssertUnwindSafe};

mod gen_keys;
mod seq;
mod kbiso;
mod sweep;
mod tablecheck;
mod framepairs;
mod evseq;
use gen_keys::{key_index, ALL_KEYS};

pub fn guard<T>(f: impl FnOnce() -> T) -> Option<T> {
    catch_unwind(AssertUnwindSafe(f)).ok()
}

pub const KSTATES: [KeyState; 3] = [KeyState::Up, KeyState::Down, KeyState::SingleShot];
pub const MODES: [HandleControl; 2] = [HandleControl::MapLettersToUnicode, HandleControl::Ignore];

pub fn mods_of_bits(b: u32) -> Modifiers {
    Modifiers {
        lshift: b & 1 != 0,
        rshift: b & 2 != 0,
        lctrl: b & 4 != 0,
        rctrl: b & 8 != 0,
        numlock: b & 16 != 0,
        capslock: b & 32 != 0,
        lalt: b & 64 != 0,
        ralt: b & 128 != 0,
        rctrl2: b & 256 != 0,
    }
}

pub fn bits_of_mods(m: &Modifiers) -> u32 {
    (m.lshift as u32)
        | (m.rshift as u32) << 1
        | (m.lctrl as u32) << 2
        | (m.rctrl as u32) << 3
        | (m.numlock as u32) << 4
        | (m.capslock as u32) << 5
        | (m.lalt as u32) << 6
        | (m.ralt as u32) << 7
        | (m.rctrl2 as u32) << 8
}

pub fn dk_token(d: &Option<DecodedKey>) -> String {
    match d {
        None => "P".to_string(),
        Some(DecodedKey::Unicode(c)) => format!("u{}", *c as u32),
        Some(DecodedKey::RawKey(k)) => format!("r{:?}", k),
    }
}

// ---------------------------------------------------------------------------------------
// Reduced ordered decision trees over `nbits` boolean variables (variable 0 tested first).
// Text form (prefix): `N<var> <lo> <hi>` or `L<token>`.

fn tree(tokens: &[String], nbits: u32) -> String {
    fn go(tokens: &[String], var: u32, nbits: u32, base: usize, out: &mut String) {
        // the sub-table with variables < var fixed as in `base`
        if var == nbits {
            write!(out, "L{}", tokens[base]).unwrap();
            return;
        }
        let mut lo = String::new();
        let mut hi = String::new();
        go(tokens, var + 1, nbits, base, &mut lo);
        go(tokens, var + 1, nbits, base | (1usize << var), &mut hi);
        if lo == hi {
            out.push_str(&lo);
        } else {
            write!(out, "N{} {} {}", var, lo, hi).unwrap();
        }
    }
    let mut s = String::new();
    go(tokens, 0, nbits, 0, &mut s);
    s
}

// ---------------------------------------------------------------------------------------
// dump layouts / predicates

fn layout_table<L: KeyboardLayout>(name: &str, l: L, out: &mut String) {
    for &k in ALL_KEYS.iter() {
        for hc in MODES {
            let toks: Vec<String> = (0..512u32)
                .map(|b| {
                    let m = mods_of_bits(b);
                    dk_token(&guard(|| l.map_keycode(k, &m, hc)))
                })
                .collect();
            writeln!(out, "L {} {:?} {:?} {}", name, k, hc, tree(&toks, 9)).unwrap();
        }
    }
}

macro_rules! for_layouts {
    ($mac:ident) => {
        $mac!(DVP104Key);
        $mac!(Dvorak104Key);
        $mac!(Us104Key);
        $mac!(Uk105Key);
        $mac!(Jis109Key);
        $mac!(Azerty);
        $mac!(Colemak);
        $mac!(De105Key);
        $mac!(No105Key);
        $mac!(FiSe105Key);
    };
}

fn dump_layouts() -> String {
    let mut out = String::new();
    macro_rules! one {
        ($n:ident) => {
            layout_table(stringify!($n), $n, &mut out);
            layout_table(concat!("Any.", stringify!($n)), AnyLayout::$n($n), &mut out);
            let any = AnyLayout::$n($n);
            layout_table(concat!("Ref.", stringify!($n)), &any, &mut out);
        };
    }
    for_layouts!(one);
    out
}

fn dump_predicates() -> String {
    let mut out = String::new();
    let preds: [(&str, fn(&Modifiers) -> bool); 5] = [
        ("is_shifted", |m| m.is_shifted()),
        ("is_ctrl", |m| m.is_ctrl()),
        ("is_alt", |m| m.is_alt()),
        ("is_altgr", |m| m.is_altgr()),
        ("is_caps", |m| m.is_caps()),
    ];
    for (n, f) in preds {
        let toks: Vec<String> = (0..512u32)
            .map(|b| {
                let m = mods_of_bits(b);
                match guard(|| f(&m)) {
                    None => "P".to_string(),
                    Some(true) => "t".to_string(),
                    Some(false) => "f".to_string(),
                }
            })
            .collect();
        writeln!(out, "P {} {}", n, tree(&toks, 9)).unwrap();
    }
    // Modifiers::default() and the record a fresh EventDecoder reports (through Keyboard)
    let kb = Keyboard::new(ScancodeSet2::new(), Us104Key, HandleControl::Ignore);
    writeln!(out, "D default {}", bits_of_mods(&Modifiers::default())).unwrap();
    writeln!(out, "D initial {}", bits_of_mods(kb.get_modifiers())).unwrap();
    out
}

// ---------------------------------------------------------------------------------------
// dump set1 / set2 : BFS over states identified by their Debug rendering

pub fn sc_token(r: &Option<Result<Option<KeyEvent>, Error>>) -> String {
    match r {
        None => "P".to_string(),
        Some(Ok(None)) => "none".to_string(),
        Some(Ok(Some(ev))) => format!("ev:{:?}:{:?}", ev.code, ev.state),
        Some(Err(e)) => format!("err:{:?}", e),
    }
}

fn dump_scancode<S: ScancodeSet + Clone + std::fmt::Debug>(tag: &str, init: S) -> String {
    const BOUND: usize = 4096;
    let mut out = String::new();
    let mut ids: HashMap<String, usize> = HashMap::new();
    let mut states: Vec<S> = Vec::new();
    let mut parents: Vec<(usize, u8)> = Vec::new();
    ids.insert(format!("{:?}", init), 0);
    states.push(init);
    parents.push((0, 0));
    let mut i = 0;
    while i < states.len() {
        writeln!(out, "S {} {} {} {} {:?}", tag, i, parents[i].0, parents[i].1, format!("{:?}", states[i])).unwrap();
        for b in 0..=255u8 {
            let mut s = states[i].clone();
            let r = guard(|| s.advance_state(b));
            let nid = if r.is_none() {
                i
            } else {
                let key = format!("{:?}", s);
                match ids.get(&key) {
                    Some(&n) => n,
                    None => {
                        let n = states.len();
                        if n >= BOUND {
                            writeln!(out, "X {} state-bound-exceeded {}", tag, BOUND).unwrap();
                            return out;
                        }
                        ids.insert(key, n);
                        states.push(s);
                        parents.push((i, b));
                        n
                    }
                }
            };
            writeln!(out, "T {} {} {} {} {}", tag, i, b, nid, sc_token(&r)).unwrap();
        }
        i += 1;
    }
    // the value `Default::default()`/`new()` are the same state
    out
}

// ---------------------------------------------------------------------------------------
// dump ps2 : BFS over add_bit(false|true) and clear, states rebuilt by replaying paths

#[derive(Clone, Copy, Debug, PartialEq)]
pub enum BitOp {
    Bit(bool),
    Clear,
}

fn ps2_token(r: &Option<Result<Option<u8>, Error>>) -> String {
    match r {
        None => "P".to_string(),
        Some(Ok(None)) => "none".to_string(),
        Some(Ok(Some(b))) => format!("byte:{}", b),
        Some(Err(e)) => format!("err:{:?}", e),
    }
}

fn ps2_replay(path: &[BitOp]) -> Option<Ps2Decoder> {
    let mut d = Ps2Decoder::new();
    for op in path {
        match op {
            BitOp::Bit(b) => {
                let _ = guard(|| d.add_bit(*b))?;
            }
            BitOp::Clear => {
                guard(|| d.clear())?;
            }
        }
    }
    Some(d)
}

fn dump_ps2() -> String {
    const BOUND: usize = 100_000;
    let mut out = String::new();
    // whole-word decoding, all 65536 words, as one decision tree over the 16 bits
    // (variable 15 first so that the don't-care upper bits collapse)
    let dec = Ps2Decoder::new();
    let toks: Vec<String> = (0..65536u32)
        .map(|w| {
            // variable i of the tree is word bit (15 - i)
            let mut word: u16 = 0;
            for i in 0..16 {
                if w & (1 << i) != 0 {
                    word |= 1 << (15 - i);
                }
            }
            match guard(|| dec.add_word(word)) {
                None => "P".to_string(),
                Some(Ok(b)) => format!("byte:{}", b),
                Some(Err(e)) => format!("err:{:?}", e),
            }
        })
        .collect();
    writeln!(out, "W {}", tree(&toks, 16)).unwrap();

    let mut ids: HashMap<String, usize> = HashMap::new();
    let mut paths: Vec<Vec<BitOp>> = Vec::new();
    let mut parents: Vec<(usize, usize)> = Vec::new();
    ids.insert(format!("{:?}", Ps2Decoder::new()), 0);
    paths.push(vec![]);
    parents.push((0, 0));
    let mut i = 0;
    let mut exceeded = false;
    while i < paths.len() && !exceeded {
        let here = ps2_replay(&paths[i]).expect("replay of a recorded path panicked");
        writeln!(out, "S ps2 {} {} {} {:?}", i, parents[i].0, parents[i].1, format!("{:?}", here)).unwrap();
        for op in [BitOp::Bit(false), BitOp::Bit(true), BitOp::Clear] {
            let mut d = ps2_replay(&paths[i]).unwrap();
            let r: Option<Result<Option<u8>, Error>> = match op {
                BitOp::Bit(b) => guard(|| d.add_bit(b)),
                BitOp::Clear => guard(|| {
                    d.clear();
                    Ok(None)
                }),
            };
            let nid = if r.is_none() {
                i
            } else {
                let key = format!("{:?}", d);
                match ids.get(&key) {
                    Some(&n) => n,
                    None => {
                        let n = paths.len();
                        if n >= BOUND {
                            if !exceeded {
                                writeln!(out, "X ps2 state-bound-exceeded {}", BOUND).unwrap();
                            }
                            exceeded = true;
                            continue;
                        }
                        ids.insert(key, n);
                        let mut p = paths[i].clone();
                        p.push(op);
                        paths.push(p);
                        parents.push((i, match op { BitOp::Bit(false) => 0, BitOp::Bit(true) => 1, BitOp::Clear => 2 }));
                        n
                    }
                }
            };
            let opn = match op {
                BitOp::Bit(false) => "b0",
                BitOp::Bit(true) => "b1",
                BitOp::Clear => "clear",
            };
            writeln!(out, "T ps2 {} {} {} {}", i, opn, nid, ps2_token(&r)).unwrap();
        }
        i += 1;
    }
    // add_word takes &self: compare it in every reachable state with the initial state's answers
    let base: Vec<Option<Result<u8, Error>>> = (0..=65535u16).map(|w| guard(|| dec.add_word(w))).collect();
    let mut diffs = 0;
    for (i, p) in paths.iter().enumerate().take(4096) {
        let d = ps2_replay(p).unwrap();
        for w in 0..=65535u16 {
            if guard(|| d.add_word(w)) != base[w as usize] {
                if diffs < 20 {
                    writeln!(out, "WD {} {}", i, w).unwrap();
                }
                diffs += 1;
            }
        }
    }
    writeln!(out, "WN {}", diffs).unwrap();
    out
}

// ---------------------------------------------------------------------------------------
// findpanic: breadth-first search of the real crate for an operation sequence that panics

fn findpanic_ps2(bound: usize) -> String {
    let mut seen: std::collections::HashSet<String> = std::collections::HashSet::new();
    let mut paths: Vec<Vec<BitOp>> = vec![vec![]];
    seen.insert(format!("{:?}", Ps2Decoder::new()));
    let mut i = 0;
    while i < paths.len() {
        for op in [BitOp::Bit(false), BitOp::Bit(true), BitOp::Clear] {
            let mut d = ps2_replay(&paths[i]).unwrap();
            let ok = match op {
                BitOp::Bit(b) => guard(|| { let _ = d.add_bit(b); }).is_some(),
                BitOp::Clear => guard(|| d.clear()).is_some(),
            };
            let mut p = paths[i].clone();
            p.push(op);
            if !ok {
                let s: String = p.iter().map(|o| match o { BitOp::Bit(false) => '0', BitOp::Bit(true) => '1', BitOp::Clear => 'c' }).collect();
                return format!("PANIC ps2 {}\n", s);
            }
            if paths.len() < bound && seen.insert(format!("{:?}", d)) {
                paths.push(p);
            }
        }
        i += 1;
    }
    format!("NONE ps2 states={} {}\n", paths.len(), if paths.len() >= bound { "bound-reached" } else { "exhausted" })
}

fn findpanic_scan<S: ScancodeSet + Clone + std::fmt::Debug>(tag: &str, init: S, bound: usize) -> String {
    let mut seen: std::collections::HashSet<String> = std::collections::HashSet::new();
    let mut states: Vec<(S, Vec<u8>)> = vec![(init.clone(), vec![])];
    seen.insert(format!("{:?}", init));
    let mut i = 0;
    while i < states.len() {
        for b in 0..=255u8 {
            let mut s = states[i].0.clone();
            let ok = guard(|| { let _ = s.advance_state(b); }).is_some();
            let mut p = states[i].1.clone();
            p.push(b);
            if !ok {
                let txt: Vec<String> = p.iter().map(|x| x.to_string()).collect();
                return format!("PANIC {} {}\n", tag, txt.join(","));
            }
            if states.len() < bound && seen.insert(format!("{:?}", s)) {
                states.push((s, p));
            }
        }
        i += 1;
    }
    format!("NONE {} states={} {}\n", tag, states.len(), if states.len() >= bound { "bound-reached" } else { "exhausted" })
}

// ---------------------------------------------------------------------------------------
// replay: evaluate one recorded input on the real crate

fn key_by_name(n: &str) -> KeyCode {
    *ALL_KEYS.iter().find(|k| format!("{:?}", k) == n).unwrap_or_else(|| panic!("unknown key {}", n))
}
fn mode_by_name(n: &str) -> HandleControl {
    if n == "Ignore" { HandleControl::Ignore } else { HandleControl::MapLettersToUnicode }
}
fn kstate_by_name(n: &str) -> KeyState {
    match n { "Up" => KeyState::Up, "Down" => KeyState::Down, _ => KeyState::SingleShot }
}

fn layout_call(obj: &str, k: KeyCode, m: &Modifiers, hc: HandleControl) -> Option<DecodedKey> {
    let (form, name) = if let Some(r) = obj.strip_prefix("Any.") { (1, r) } else if let Some(r) = obj.strip_prefix("Ref.") { (2, r) } else { (0, obj) };
    fn go<L: KeyboardLayout>(l: L, k: KeyCode, m: &Modifiers, hc: HandleControl) -> Option<DecodedKey> {
        guard(|| l.map_keycode(k, m, hc))
    }
    macro_rules! one {
        ($n:ident) => {
            if name == stringify!($n) {
                return match form {
                    0 => go($n, k, m, hc),
                    1 => go(AnyLayout::$n($n), k, m, hc),
                    _ => { let any = AnyLayout::$n($n); go(&any, k, m, hc) }
                };
            }
        };
    }
    for_layouts!(one);
    panic!("unknown layout {}", name)
}

pub fn any_by_name(name: &str) -> AnyLayout {
    macro_rules! one {
        ($n:ident) => {
            if name == stringify!($n) {
                return AnyLayout::$n($n);
            }
        };
    }
    for_layouts!(one);
    panic!("unknown layout {}", name)
}

/// AnyLayout has no Debug impl; this wrapper lets EventDecoder's derived Debug print the state.
pub struct Dbg(pub AnyLayout);
impl std::fmt::Debug for Dbg {
    fn fmt(&self, f: &mut std::fmt::Formatter<'_>) -> std::fmt::Result {
        f.write_str("AnyLayout")
    }
}
impl KeyboardLayout for Dbg {
    fn map_keycode(&self, keycode: KeyCode, modifiers: &Modifiers, handle_ctrl: HandleControl) -> DecodedKey {
        self.0.map_keycode(keycode, modifiers, handle_ctrl)
    }
}

fn replay(args: &[String]) -> String {
    let mut out = String::new();
    match args[0].as_str() {
        "word" => {
            let w: u16 = args[1].parse().unwrap();
            let d = Ps2Decoder::new();
            let r = guard(|| d.add_word(w)).map(|r| r.map(Some));
            out.push_str(&ps2_token(&r));
        }
        "bits" => {
            let mut d = Ps2Decoder::new();
            let mut toks = Vec::new();
            for c in args[1].chars() {
                let r = match c {
                    '0' => guard(|| d.add_bit(false)),
                    '1' => guard(|| d.add_bit(true)),
                    _ => guard(|| { d.clear(); Ok(None) }),
                };
                toks.push(ps2_token(&r));
            }
            out.push_str(&toks.join(" "));
        }
        "bytes" => {
            let bytes: Vec<u8> = args[2].split(',').filter(|s| !s.is_empty()).map(|s| s.parse().unwrap()).collect();
            let mut toks = Vec::new();
            if args[1] == "set1" {
                let mut s = ScancodeSet1::new();
                for b in bytes { toks.push(sc_token(&guard(|| s.advance_state(b)))); }
            } else {
                let mut s = ScancodeSet2::new();
                for b in bytes { toks.push(sc_token(&guard(|| s.advance_state(b)))); }
            }
            out.push_str(&toks.join(" "));
        }
        "layout" => {
            let m = mods_of_bits(args[3].parse().unwrap());
            let r = layout_call(&args[1], key_by_name(&args[2]), &m, mode_by_name(&args[4]));
            out.push_str(&dk_token(&r));
        }
        "events" => {
            // events <Layout> <Mode> op... ; op = Key:State | mode:<Mode> | layout:<Layout>
            let mut d = EventDecoder::new(Dbg(any_by_name(&args[1])), mode_by_name(&args[2]));
            let mut toks = Vec::new();
            for op in &args[3..] {
                let (a, b) = op.split_once(':').unwrap();
                if a == "mode" {
                    d.set_ctrl_handling(mode_by_name(b));
                    toks.push("-".to_string());
                } else if a == "layout" {
                    d.change_layout(Dbg(any_by_name(b)));
                    toks.push("-".to_string());
                } else {
                    let r = guard(|| d.process_keyevent(KeyEvent::new(key_by_name(a), kstate_by_name(b))));
                    toks.push(match r { None => "P".to_string(), Some(None) => "none".to_string(), Some(Some(x)) => dk_token(&Some(x)) });
                }
            }
            out.push_str(&toks.join(" "));
            write!(out, " | {:?}", d).unwrap();
        }
        "evstep" => {
            // evstep <modbits> <mode> (<Key> <State> | mode <Mode>): drive a recording decoder into the state, apply one op
            let bits: u32 = args[1].parse().unwrap();
            let mut d = EventDecoder::new(Rec, mode_by_name(&args[2]));
            let press = |d: &mut EventDecoder<Rec>, k: KeyCode| { d.process_keyevent(KeyEvent::new(k, KeyState::Down)); };
            if bits & 16 == 0 { press(&mut d, KeyCode::NumpadLock); }
            if bits & 32 != 0 { press(&mut d, KeyCode::CapsLock); }
            if bits & 1 != 0 { press(&mut d, KeyCode::LShift); }
            if bits & 2 != 0 { press(&mut d, KeyCode::RShift); }
            if bits & 4 != 0 { press(&mut d, KeyCode::LControl); }
            if bits & 8 != 0 { press(&mut d, KeyCode::RControl); }
            if bits & 64 != 0 { press(&mut d, KeyCode::LAlt); }
            if bits & 128 != 0 { press(&mut d, KeyCode::RAltGr); }
            if bits & 256 != 0 { press(&mut d, KeyCode::RControl2); }
            let before = state_bits(&format!("{:?}", d));
            let want_mode = if args[2] == "Ignore" { 1 } else { 0 };
            if before != Some(bits | (want_mode << 9)) {
                write!(out, "UNREACHED start={:?} wanted=({}, {}) ", before.map(|b| (b & 511, b >> 9)), bits, want_mode).unwrap();
            }
            let r = if args[3] == "mode" {
                d.set_ctrl_handling(mode_by_name(&args[4]));
                "-".to_string()
            } else {
                match guard(|| d.process_keyevent(KeyEvent::new(key_by_name(&args[3]), kstate_by_name(&args[4])))) {
                    None => "P".to_string(),
                    Some(None) => "none".to_string(),
                    Some(Some(DecodedKey::RawKey(k))) => format!("raw:{:?}", k),
                    Some(Some(DecodedKey::Unicode(c))) => {
                        let code = c as u32;
                        if (0x20000..0x40000).contains(&code) {
                            let v = code - 0x20000;
                            format!("cons:{:?}:{}:{}", ALL_KEYS[(v >> 10) as usize], (v >> 1) & 511, v & 1)
                        } else { format!("uni:{}", code) }
                    }
                }
            };
            let after = state_bits(&format!("{:?}", d));
            write!(out, "start={:?} {} {} {}", before.map(|b| (b & 511, b >> 9)), after.map(|b| b & 511).unwrap_or(9999), after.map(|b| b >> 9).unwrap_or(9), r).unwrap();
        }
        _ => panic!("unknown replay kind"),
    }
    out.push('\n');
    out
}

// ---------------------------------------------------------------------------------------
// dump event : EventDecoder with a recording layout

/// Returns `Unicode(c)` with `c` an injective code of (key, modifiers, mode).
#[derive(Debug)]
pub struct Rec;
impl KeyboardLayout for Rec {
    fn map_keycode(&self, keycode: KeyCode, modifiers: &Modifiers, handle_ctrl: HandleControl) -> DecodedKey {
        let code = 0x20000u32
            + ((key_index(keycode) as u32) << 10)
            + (bits_of_mods(modifiers) << 1)
            + (if handle_ctrl == HandleControl::MapLettersToUnicode { 0 } else { 1 });
        DecodedKey::Unicode(char::from_u32(code).unwrap())
    }
}

#[derive(Clone, Copy, Debug)]
pub enum EvOp {
    Ev(usize, usize), // key index, key state index
    SetMode(usize),
}

fn apply_ev<L: KeyboardLayout>(d: &mut EventDecoder<L>, op: EvOp) -> Option<Option<DecodedKey>> {
    match op {
        EvOp::Ev(k, s) => guard(|| d.process_keyevent(KeyEvent::new(ALL_KEYS[k], KSTATES[s]))),
        EvOp::SetMode(m) => guard(|| {
            d.set_ctrl_handling(MODES[m]);
            None
        }),
    }
}

/// Parse `name: true|false` pairs and `handle_ctrl: X` out of a Debug rendering.
/// Returns the ten state bits (nine flags in field order of `Modifiers`, then mode: 0 = Map, 1 = Ignore).
fn state_bits(dbg: &str) -> Option<u32> {
    let names = [
        "lshift", "rshift", "lctrl", "rctrl", "numlock", "capslock", "lalt", "ralt", "rctrl2",
    ];
    let mut bits = 0u32;
    for (i, n) in names.iter().enumerate() {
        let pat = format!("{}: ", n);
        // take the match that is preceded by a non-identifier character
        let mut found = None;
        let mut start = 0;
        while let Some(p) = dbg[start..].find(&pat) {
            let at = start + p;
            let ok = at == 0 || !dbg.as_bytes()[at - 1].is_ascii_alphanumeric() && dbg.as_bytes()[at - 1] != b'_';
            if ok {
                found = Some(at + pat.len());
                break;
            }
            start = at + 1;
        }
        let at = found?;
        if dbg[at..].starts_with("true") {
            bits |= 1 << i;
        } else if !dbg[at..].starts_with("false") {
            return None;
        }
    }
    let at = dbg.find("handle_ctrl: ")? + "handle_ctrl: ".len();
    if dbg[at..].starts_with("Ignore") {
        bits |= 1 << 9;
    } else if !dbg[at..].starts_with("MapLettersToUnicode") {
        return None;
    }
    Some(bits)
}

fn dump_event() -> String {
    let mut out = String::new();
    let nk = ALL_KEYS.len();
    // BFS from both initial modes
    let mut ids: HashMap<String, usize> = HashMap::new();
    let mut paths: Vec<(usize, Vec<EvOp>)> = Vec::new(); // (initial mode, path)
    let mut dbgs: Vec<String> = Vec::new();
    for m in 0..2 {
        let d = EventDecoder::new(Rec, MODES[m]);
        let key = format!("{:?}", d);
        if !ids.contains_key(&key) {
            ids.insert(key.clone(), paths.len());
            paths.push((m, vec![]));
            dbgs.push(key);
        }
    }
    let replay = |p: &(usize, Vec<EvOp>)| -> EventDecoder<Rec> {
        let mut d = EventDecoder::new(Rec, MODES[p.0]);
        for op in &p.1 {
            apply_ev(&mut d, *op);
        }
        d
    };
    let mut ops: Vec<EvOp> = Vec::new();
    for k in 0..nk {
        for s in 0..3 {
            ops.push(EvOp::Ev(k, s));
        }
    }
    ops.push(EvOp::SetMode(0));
    ops.push(EvOp::SetMode(1));
    // rows[state][op] = (next, result token)
    let mut rows: Vec<Vec<(usize, String)>> = Vec::new();
    let mut i = 0;
    while i < paths.len() {
        let mut row = Vec::with_capacity(ops.len());
        let here_bits = state_bits(&dbgs[i]);
        for op in &ops {
            let mut d = replay(&paths[i]);
            let r = apply_ev(&mut d, *op);
            let (nid, tok) = match r {
                None => (i, "P".to_string()),
                Some(res) => {
                    let key = format!("{:?}", d);
                    let nid = match ids.get(&key) {
                        Some(&n) => n,
                        None => {
                            let n = paths.len();
                            if n > 8192 {
                                writeln!(out, "X event state-bound-exceeded 8192").unwrap();
                                return out;
                            }
                            ids.insert(key.clone(), n);
                            let mut p = paths[i].clone();
                            p.1.push(*op);
                            paths.push(p);
                            dbgs.push(key);
                            n
                        }
                    };
                    let tok = match (res, op) {
                        (None, _) => "none".to_string(),
                        (Some(DecodedKey::RawKey(k)), _) => format!("raw:{:?}", k),
                        (Some(DecodedKey::Unicode(c)), EvOp::Ev(k, _)) => {
                            let code = c as u32;
                            if (0x20000..0x40000).contains(&code) {
                                let v = code - 0x20000;
                                let ck = (v >> 10) as usize;
                                let cm = (v >> 1) & 511;
                                let cmode = v & 1;
                                match here_bits {
                                    Some(hb) if ck == *k && cm == (hb & 511) && cmode == (hb >> 9) => "exact".to_string(),
                                    _ => format!("cons:{:?}:{}:{}", ALL_KEYS[ck], cm, cmode),
                                }
                            } else {
                                format!("uni:{}", code)
                            }
                        }
                        (Some(DecodedKey::Unicode(c)), _) => format!("uni:{}", c as u32),
                    };
                    (nid, tok)
                }
            };
            row.push((nid, tok));
        }
        rows.push(row);
        i += 1;
    }
    // every state must be identified by its ten bits
    let mut by_bits: HashMap<u32, usize> = HashMap::new();
    for (i, d) in dbgs.iter().enumerate() {
        match state_bits(d) {
            None => {
                writeln!(out, "X event unparsable-state {:?}", d).unwrap();
                return out;
            }
            Some(b) => {
                if let Some(j) = by_bits.insert(b, i) {
                    writeln!(out, "X event state-not-determined-by-modifiers-and-mode {:?} {:?}", dbgs[j], d).unwrap();
                    return out;
                }
            }
        }
    }
    writeln!(out, "E states {}", dbgs.len()).unwrap();
    writeln!(out, "E init {} {}", state_bits(&dbgs[ids[&format!("{:?}", EventDecoder::new(Rec, MODES[0]))]]).unwrap(),
             state_bits(&dbgs[ids[&format!("{:?}", EventDecoder::new(Rec, MODES[1]))]]).unwrap()).unwrap();
    // reachable-set tree over ten bits
    let reach: Vec<String> = (0..1024u32).map(|b| if by_bits.contains_key(&b) { "t".into() } else { "f".into() }).collect();
    writeln!(out, "E reach {}", tree(&reach, 10)).unwrap();
    // per op: ten next-bit trees and a result tree. Unreachable bit vectors get token "x".
    for (oi, op) in ops.iter().enumerate() {
        let name = match op {
            EvOp::Ev(k, s) => format!("ev:{:?}:{:?}", ALL_KEYS[*k], KSTATES[*s]),
            EvOp::SetMode(m) => format!("mode:{:?}", MODES[*m]),
        };
        for j in 0..10 {
            let toks: Vec<String> = (0..1024u32)
                .map(|b| match by_bits.get(&b) {
                    None => "x".to_string(),
                    Some(&i) => {
                        let (nid, tok) = &rows[i][oi];
                        if tok == "P" {
                            "P".to_string()
                        } else if state_bits(&dbgs[*nid]).unwrap() & (1 << j) != 0 {
                            "t".to_string()
                        } else {
                            "f".to_string()
                        }
                    }
                })
                .collect();
            writeln!(out, "B {} {} {}", name, j, tree(&toks, 10)).unwrap();
        }
        let toks: Vec<String> = (0..1024u32)
            .map(|b| match by_bits.get(&b) {
                None => "x".to_string(),
                Some(&i) => rows[i][oi].1.clone(),
            })
            .collect();
        writeln!(out, "R {} {}", name, tree(&toks, 10)).unwrap();
    }
    out
}

// ---------------------------------------------------------------------------------------

fn main() {
    std::panic::set_hook(Box::new(|_| {}));
    let args: Vec<String> = std::env::args().collect();
    let usage = "usage: pckb-harness dump (layouts|predicates|set1|set2|ps2|event) | seq ...";
    if args.len() < 2 {
        eprintln!("{}", usage);
        std::process::exit(2);
    }
    let out = match (args[1].as_str(), args.get(2).map(|s| s.as_str())) {
        ("dump", Some("layouts")) => dump_layouts(),
        ("dump", Some("predicates")) => dump_predicates(),
        ("dump", Some("set1")) => dump_scancode("set1", ScancodeSet1::new()),
        ("dump", Some("set2")) => dump_scancode("set2", ScancodeSet2::new()),
        ("dump", Some("ps2")) => dump_ps2(),
        ("dump", Some("event")) => dump_event(),
        ("seq", _) => seq::main(&args[2..]),
        ("replay", Some("kbd")) => kbiso::replay(&args[3]),
        ("replay", _) => replay(&args[2..]),
        ("kbiso", _) => kbiso::main(&args[2..]),
        ("evseq", _) => evseq::main(&args[2..]),
        ("framepairs", _) => framepairs::main(&args[2..]),
        ("tablecheck", _) => tablecheck::main(&args[2..]),
        ("findpanic", _) => {
            let mut o = findpanic_ps2(3_000_000);
            o.push_str(&findpanic_scan("set1", ScancodeSet1::new(), 100_000));
            o.push_str(&findpanic_scan("set2", ScancodeSet2::new(), 100_000));
            o
        }
        ("sweep32", Some("set1")) => sweep::sweep::<ScancodeSet1>(),
        ("sweep32", Some("set2")) => sweep::sweep::<ScancodeSet2>(),
        _ => {
            eprintln!("{}", usage);
            std::process::exit(2);
        }
    };
    let stdout = std::io::stdout();
    let mut lock = stdout.lock();
    lock.write_all(out.as_bytes()).unwrap();
}
