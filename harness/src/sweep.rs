// sweep32: every four-byte stream (2^32) through the real decoder from new(), against the transition
// table obtained by breadth-first exploration over Debug renderings.  Tests the assumption that the
// Debug rendering is the whole state (a hidden dependence on history would show as a mismatch).
use crate::guard;
use crate::kbiso::MkSet;
use pc_keyboard::*;
use std::collections::HashMap;

type Res = Option<Result<Option<KeyEvent>, Error>>;

fn table<S: MkSet>() -> Vec<Vec<(usize, Res)>> {
    let mut ids: HashMap<String, usize> = HashMap::new();
    let mut states: Vec<S> = vec![S::mk()];
    ids.insert(format!("{:?}", states[0]), 0);
    let mut rows: Vec<Vec<(usize, Res)>> = Vec::new();
    let mut i = 0;
    while i < states.len() {
        let mut row = Vec::with_capacity(256);
        for b in 0..=255u8 {
            let mut s = states[i].clone();
            let r = guard(|| s.advance_state(b));
            let n = if r.is_none() { i } else {
                let key = format!("{:?}", s);
                match ids.get(&key) {
                    Some(&n) => n,
                    None => { let n = states.len(); ids.insert(key, n); states.push(s); n }
                }
            };
            row.push((n, r));
        }
        rows.push(row);
        i += 1;
        if states.len() > 4096 { break; }
    }
    rows
}

pub fn sweep<S: MkSet>() -> String {
    let tbl = table::<S>();
    let threads = 16usize;
    let mut handles = Vec::new();
    let tblr = std::sync::Arc::new(tbl);
    for t in 0..threads {
        let tb = tblr.clone();
        handles.push(std::thread::spawn(move || {
            let mut bad: Vec<[u8; 4]> = Vec::new();
            let mut n: u64 = 0;
            for b0 in (t..256).step_by(threads) {
                for b1 in 0..256usize { for b2 in 0..256usize { for b3 in 0..256usize {
                    let bytes = [b0 as u8, b1 as u8, b2 as u8, b3 as u8];
                    let mut s = S::mk();
                    let mut st = 0usize;
                    let mut ok = true;
                    for b in bytes {
                        let (ns, ref exp) = tb[st][b as usize];
                        let got = if exp.is_none() { guard(|| s.advance_state(b)) } else { Some(s.advance_state(b)) };
                        if &got != exp { ok = false; break; }
                        if exp.is_none() { break; }
                        st = ns;
                    }
                    n += 1;
                    if !ok && bad.len() < 5 { bad.push(bytes); }
                } } }
            }
            (n, bad)
        }));
    }
    let mut total = 0u64;
    let mut bad = Vec::new();
    for h in handles { let (n, b) = h.join().unwrap(); total += n; bad.extend(b); }
    let mut out = format!("N {} streams {} states {} mismatches {}\n", S::NAME, total, tblr.len(), bad.len());
    for b in bad.iter().take(5) { out.push_str(&format!("M {} {},{},{},{}\n", S::NAME, b[0], b[1], b[2], b[3])); }
    out
}
