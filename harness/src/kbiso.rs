// C18: the combined Keyboard against three separately driven stage objects, operation by operation.
// For every operation the stage it feeds is taken through every state x every input; the other
// stages are put in every (frame: 2047 partial frames, scancode: every decoder state) or sampled
// (modifiers; frames when `thorough` is off) state.  States are compared through their Debug rendering.

use crate::{guard, mods_of_bits, sc_token, dk_token, Rec, KSTATES, MODES};
use crate::gen_keys::ALL_KEYS;
use pc_keyboard::*;
use std::collections::HashMap;
use std::fmt::Write as _;

pub trait MkSet: ScancodeSet + Clone + std::fmt::Debug {
    fn mk() -> Self;
    const NAME: &'static str;
}
impl MkSet for ScancodeSet1 {
    fn mk() -> Self { ScancodeSet1::new() }
    const NAME: &'static str = "set1";
}
impl MkSet for ScancodeSet2 {
    fn mk() -> Self { ScancodeSet2::new() }
    const NAME: &'static str = "set2";
}

/// byte paths to every decoder state (BFS by Debug rendering)
fn scan_paths<S: MkSet>() -> Vec<Vec<u8>> {
    let mut ids: HashMap<String, usize> = HashMap::new();
    let mut paths: Vec<Vec<u8>> = vec![vec![]];
    ids.insert(format!("{:?}", S::mk()), 0);
    let mut i = 0;
    while i < paths.len() && paths.len() < 64 {
        for b in 0..=255u8 {
            let mut s = S::mk();
            for x in &paths[i] { let _ = guard(|| s.advance_state(*x)); }
            if guard(|| s.advance_state(b)).is_none() { continue; }
            let key = format!("{:?}", s);
            if !ids.contains_key(&key) {
                ids.insert(key, paths.len());
                let mut p = paths[i].clone();
                p.push(b);
                paths.push(p);
            }
        }
        i += 1;
    }
    paths
}

#[derive(Clone)]
pub struct Setup {
    pub scan: Vec<u8>,
    pub mods: u32,
    pub mode: usize,
    pub bits: Vec<bool>,
}

fn press_mods<F: FnMut(KeyCode)>(bits: u32, mut press: F) {
    if bits & 1 != 0 { press(KeyCode::LShift); }
    if bits & 2 != 0 { press(KeyCode::RShift); }
    if bits & 4 != 0 { press(KeyCode::LControl); }
    if bits & 8 != 0 { press(KeyCode::RControl); }
    if bits & 16 == 0 { press(KeyCode::NumpadLock); }
    if bits & 32 != 0 { press(KeyCode::CapsLock); }
    if bits & 64 != 0 { press(KeyCode::LAlt); }
    if bits & 128 != 0 { press(KeyCode::RAltGr); }
    if bits & 256 != 0 { press(KeyCode::RControl2); }
}

pub fn build<S: MkSet>(su: &Setup) -> (Keyboard<Rec, S>, Ps2Decoder, S, EventDecoder<Rec>) {
    let mut k = Keyboard::new(S::mk(), Rec, MODES[su.mode]);
    let mut p = Ps2Decoder::new();
    let mut s = S::mk();
    let mut e = EventDecoder::new(Rec, MODES[su.mode]);
    for b in &su.scan {
        let _ = k.add_byte(*b);
        let _ = s.advance_state(*b);
    }
    press_mods(su.mods, |key| { k.process_keyevent(KeyEvent::new(key, KeyState::Down)); });
    press_mods(su.mods, |key| { e.process_keyevent(KeyEvent::new(key, KeyState::Down)); });
    for bit in &su.bits {
        let _ = k.add_bit(*bit);
        let _ = p.add_bit(*bit);
    }
    (k, p, s, e)
}

#[derive(Clone, Debug)]
pub enum Op {
    Bit(bool),
    Word(u16),
    Byte(u8),
    Event(usize, usize),
    Clear,
    SetMode(usize),
}

fn state_string<S: MkSet>(p: &Ps2Decoder, s: &S, e: &EventDecoder<Rec>) -> String {
    format!("Keyboard {{ ps2_decoder: {:?}, scancode_set: {:?}, event_decoder: {:?} }}", p, s, e)
}

/// Returns (actual, expected) renderings: "<result> | <state> | <get_modifiers> <get_ctrl_handling>"
pub fn run_op<S: MkSet>(su: &Setup, op: &Op) -> (String, String) {
    let (mut k, mut p, mut s, mut e) = build::<S>(su);
    let actual_r: String = match op {
        Op::Bit(b) => sc_token(&guard(|| k.add_bit(*b))),
        Op::Word(w) => sc_token(&guard(|| k.add_word(*w))),
        Op::Byte(b) => sc_token(&guard(|| k.add_byte(*b))),
        Op::Event(key, st) => match guard(|| k.process_keyevent(KeyEvent::new(ALL_KEYS[*key], KSTATES[*st]))) {
            None => "P".into(), Some(None) => "none".into(), Some(x) => dk_token(&x) },
        Op::Clear => match guard(|| k.clear()) { None => "P".into(), Some(_) => "-".into() },
        Op::SetMode(m) => match guard(|| k.set_ctrl_handling(MODES[*m])) { None => "P".into(), Some(_) => "-".into() },
    };
    let expected_r: String = match op {
        Op::Bit(b) => sc_token(&guard(|| match p.add_bit(*b) {
            Ok(Some(byte)) => s.advance_state(byte),
            Ok(None) => Ok(None),
            Err(x) => Err(x),
        })),
        Op::Word(w) => sc_token(&guard(|| match p.add_word(*w) {
            Ok(byte) => s.advance_state(byte),
            Err(x) => Err(x),
        })),
        Op::Byte(b) => sc_token(&guard(|| s.advance_state(*b))),
        Op::Event(key, st) => match guard(|| e.process_keyevent(KeyEvent::new(ALL_KEYS[*key], KSTATES[*st]))) {
            None => "P".into(), Some(None) => "none".into(), Some(x) => dk_token(&x) },
        Op::Clear => match guard(|| p.clear()) { None => "P".into(), Some(_) => "-".into() },
        Op::SetMode(m) => match guard(|| e.set_ctrl_handling(MODES[*m])) { None => "P".into(), Some(_) => "-".into() },
    };
    let actual = format!("{} | {:?} | {:?} {:?}", actual_r, k, k.get_modifiers(), k.get_ctrl_handling());
    let exp_state = state_string(&p, &s, &e);
    // the modifiers/mode getters must report what the event decoder's own state says
    let ed = format!("{:?}", e);
    let mstart = ed.find("modifiers: ").map(|i| i + 11).unwrap_or(0);
    let mend = ed[mstart..].find('}').map(|i| mstart + i + 1).unwrap_or(ed.len());
    // (the mode through the event decoder's own getter: what it reports need not be a field's rendering)
    let expected = format!("{} | {} | {} {:?}", expected_r, exp_state, &ed[mstart..mend], e.get_ctrl_handling());
    (actual, expected)
}

pub fn describe(set: &str, su: &Setup, op: &Op) -> String {
    let bits: String = su.bits.iter().map(|b| if *b { '1' } else { '0' }).collect();
    let scan: Vec<String> = su.scan.iter().map(|b| b.to_string()).collect();
    let ops = match op {
        Op::Bit(b) => format!("bit:{}", *b as u8),
        Op::Word(w) => format!("word:{}", w),
        Op::Byte(b) => format!("byte:{}", b),
        Op::Event(k, s) => format!("event:{}:{}", k, s),
        Op::Clear => "clear".to_string(),
        Op::SetMode(m) => format!("mode:{}", m),
    };
    format!("{};scan={};mods={};mode={};bits={};{}", set, scan.join(","), su.mods, su.mode, bits, ops)
}

pub fn parse(desc: &str) -> (String, Setup, Op) {
    let parts: Vec<&str> = desc.split(';').collect();
    let val = |i: usize| parts[i].split_once('=').unwrap().1;
    let scan: Vec<u8> = val(1).split(',').filter(|s| !s.is_empty()).map(|s| s.parse().unwrap()).collect();
    let su = Setup { scan, mods: val(2).parse().unwrap(), mode: val(3).parse().unwrap(), bits: val(4).chars().map(|c| c == '1').collect() };
    let o: Vec<&str> = parts[5].split(':').collect();
    let op = match o[0] {
        "bit" => Op::Bit(o[1] == "1"),
        "word" => Op::Word(o[1].parse().unwrap()),
        "byte" => Op::Byte(o[1].parse().unwrap()),
        "event" => Op::Event(o[1].parse().unwrap(), o[2].parse().unwrap()),
        "clear" => Op::Clear,
        _ => Op::SetMode(o[1].parse().unwrap()),
    };
    (parts[0].to_string(), su, op)
}

fn all_frames() -> Vec<Vec<bool>> {
    let mut v = Vec::new();
    for len in 0..=10u32 {
        for val in 0..(1u32 << len) {
            v.push((0..len).map(|i| val & (1 << i) != 0).collect());
        }
    }
    v
}

fn sweep<S: MkSet>(thorough: bool, out: &mut String) -> (u64, u64) {
    let scans = scan_paths::<S>();
    let frames = all_frames();
    let frame_sample: Vec<Vec<bool>> = if thorough { frames.clone() } else {
        frames.iter().enumerate().filter(|(i, _)| i % 67 == 0 || *i < 4).map(|(_, f)| f.clone()).collect()
    };
    let mod_sample: Vec<u32> = if thorough { vec![0x010, 0x1ff, 0x0a5, 0x15a, 0x000, 0x111, 0x0ef, 0x130] } else { vec![0x010, 0x1ff, 0x0a5, 0x15a] };
    let mut n: u64 = 0;
    let mut bad: u64 = 0;
    let mut check = |su: &Setup, op: Op, out: &mut String| {
        let (a, e) = run_op::<S>(su, &op);
        n += 1;
        if a != e {
            bad += 1;
            if bad <= 5 {
                writeln!(out, "M {}", describe(S::NAME, su, &op)).unwrap();
                writeln!(out, "  actual:   {}", a).unwrap();
                writeln!(out, "  expected: {}", e).unwrap();
            }
        }
    };
    // add_bit: every frame state x both bits; scancode stage in every state; modifiers sampled
    for f in &frames { for sc in &scans { for (mi, m) in mod_sample.iter().enumerate() {
        let su = Setup { scan: sc.clone(), mods: *m, mode: mi % 2, bits: f.clone() };
        check(&su, Op::Bit(false), out);
        check(&su, Op::Bit(true), out);
    } } }
    // clear: every frame state
    for f in &frames { for sc in &scans { for (mi, m) in mod_sample.iter().enumerate() {
        let su = Setup { scan: sc.clone(), mods: *m, mode: mi % 2, bits: f.clone() };
        check(&su, Op::Clear, out);
    } } }
    // add_word: all 2048 frames (and a band of out-of-range words) x every scancode state; frame stage sampled
    let fs: Vec<&Vec<bool>> = frame_sample.iter().step_by(if thorough { 97 } else { 8 }).collect();
    for w in (0..2048u32).chain([2048u32, 4095, 32768, 65535]) { for sc in &scans { for f in &fs {
        let su = Setup { scan: sc.clone(), mods: 0x010, mode: 0, bits: (*f).clone() };
        check(&su, Op::Word(w as u16), out);
    } } }
    // add_byte: every scancode state x every byte; frame stage in every (sampled when quick) partial state
    for sc in &scans { for b in 0..=255u8 { for (fi, f) in frame_sample.iter().enumerate() {
        let su = Setup { scan: sc.clone(), mods: mod_sample[fi % mod_sample.len()], mode: fi % 2, bits: f.clone() };
        check(&su, Op::Byte(b), out);
    } } }
    // process_keyevent / set_ctrl_handling: every modifier state x mode; other stages sampled
    let fs2: Vec<&Vec<bool>> = frame_sample.iter().step_by(if thorough { 257 } else { 16 }).collect();
    for m in 0..512u32 { for mode in 0..2 { for (si, sc) in scans.iter().enumerate() { for f in &fs2 {
        let su = Setup { scan: sc.clone(), mods: m, mode, bits: (*f).clone() };
        check(&su, Op::SetMode(0), out);
        check(&su, Op::SetMode(1), out);
        if si % 2 == 0 || thorough {
            for k in 0..ALL_KEYS.len() { for st in 0..3 {
                if !thorough && (k + st + m as usize) % 3 != 0 && m != 0x010 && m != 0x1ff { continue; }
                check(&su, Op::Event(k, st), out);
            } }
        }
    } } } }
    writeln!(out, "N {} comparisons {} mismatches {} scancode_states {} frame_states {}", S::NAME, n, bad, scans.len(), frames.len()).unwrap();
    (n, bad)
}

pub fn main(args: &[String]) -> String {
    let thorough = args.first().map(|s| s == "thorough").unwrap_or(false);
    let mut out = String::new();
    sweep::<ScancodeSet1>(thorough, &mut out);
    sweep::<ScancodeSet2>(thorough, &mut out);
    out
}

pub fn replay(desc: &str) -> String {
    let (set, su, op) = parse(desc);
    let (a, e) = if set == "set1" { run_op::<ScancodeSet1>(&su, &op) } else { run_op::<ScancodeSet2>(&su, &op) };
    let _ = mods_of_bits;
    format!("actual:   {}\nexpected: {}\n{}\n", a, e, if a == e { "SAME" } else { "DIFFERENT" })
}
