#!/bin/sh
# Build the framework from files on disk, offline: translate /repo, build the harness, dump the
# tables, compile the whole Coq development once. Later checks rebuild only what a source edit affects.
set -e
cd "$(dirname "$0")"
export CARGO_NET_OFFLINE=true
./check prepare --force
