"""Thorough-tier additions shared by the properties (run after the quick decision)."""
import os, re, json

SCAN_PROPS = {'C01': ['set2'], 'C02': ['set1'], 'C07': ['set1', 'set2'], 'C13': ['set1', 'set2'], 'C19': ['set1', 'set2'], 'C08': ['set1', 'set2']}
ALLOWED_AXIOMS = []


def run(pid, cfg, cov, notes, ctx):
    viol = []
    # 1. release-profile crate: the dumped tables must be identical to the debug-profile ones
    #    (wrapping and checked arithmetic coincide when nothing overflows)
    rc, out, dt = ctx.sh('cargo build --offline --release 2>&1', cwd=os.path.join(ctx.ROOT, 'harness'), timeout=1200)
    if rc == 0:
        same, diff = 0, []
        for d in ('layouts', 'predicates', 'set1', 'set2', 'ps2', 'event'):
            rc2, out2, dt2 = ctx.sh([ctx.HARNESS_REL, 'dump', d], timeout=900)
            try:
                ref = open(os.path.join(ctx.DUMP, d + '.txt')).read()
            except OSError:
                ref = None
            if rc2 == 0 and ref == out2:
                same += 1
            else:
                diff.append(d)
        cov['release_tables_identical'] = same
        if diff:
            notes.append("release-profile tables differ from debug-profile tables: %s" % ', '.join(diff))
            path = ctx.write_replay(pid, 'unproved', {'property': pid, 'kind': 'no-failing-input-found',
                                                      'broken': ['release/debug table comparison: ' + ', '.join(diff)]})
            viol.append((path, ' no-failing-input-found'))
    else:
        notes.append("release harness did not build")
    # 2. 2^32 four-byte streams against the table automaton (the Debug rendering is the whole state)
    for setn in SCAN_PROPS.get(pid, []):
        if not os.path.exists(ctx.HARNESS_REL):
            break
        rc, out, dt = ctx.sh([ctx.HARNESS_REL, 'sweep32', setn], timeout=3000)
        m = re.search(r'streams (\d+) states (\d+) mismatches (\d+)', out)
        if m:
            cov['sweep32_' + setn] = {'streams': int(m.group(1)), 'states': int(m.group(2)), 'mismatches': int(m.group(3)), 'seconds': round(dt, 1)}
            cov['traces_validated_against_impl'] = cov.get('traces_validated_against_impl', 0) + int(m.group(1))
            for mm in re.finditer(r'^M (\S+) ([\d,]+)', out, re.M):
                rep = {'property': pid, 'kind': 'bytesN', 'input_text': 'hidden state: %s bytes %s' % (mm.group(1), mm.group(2)),
                       'harness_cmd': ['replay', 'bytes', mm.group(1), mm.group(2)], 'expected': 'the table automaton built from Debug renderings'}
                viol.append((ctx.write_replay(pid, 'cex', rep), ''))
                break
    # 3. independent re-check of the compiled proofs and their axioms
    mods = ['PK.' + rel.replace('/', '.') for rel in cfg.get('syn', []) + cfg.get('ext', []) if ctx.vo_ok(rel)]
    if mods:
        rc, out, dt = ctx.sh('timeout 1500 coqchk -silent -o -Q . PK %s 2>&1' % ' '.join(mods), cwd=ctx.COQ, timeout=1600)
        if rc == 124:
            # coqchk has no bytecode VM: the big reflective sweeps can take very long in it
            cov['coqchk'] = {'modules': mods, 'rc': 'timed out after 1500 s (not counted against the property)'}
            notes.append("coqchk timed out on %s" % ' '.join(mods))
            return viol
        ax = re.search(r'\* Axioms:\s*(.*?)\n\s*\n', out + '\n\n', re.S)
        axioms = ax.group(1).strip() if ax else '?'
        cov['coqchk'] = {'modules': mods, 'rc': rc, 'axioms': ' '.join(axioms.split())[:300], 'seconds': round(dt, 1)}
        if rc != 0 or ('<none>' not in axioms):
            notes.append("coqchk: rc=%d axioms=%s" % (rc, axioms[:200]))
            path = ctx.write_replay(pid, 'unproved', {'property': pid, 'kind': 'no-failing-input-found', 'broken': ['coqchk'], 'output': {'coqchk': out[-1500:]}})
            viol.append((path, ' no-failing-input-found'))
    return viol
