#!/usr/bin/env python3
"""Print the markdown table of DESIGN.md section 15 from /verif/seeded/*/meta.json."""
import json, glob, os
rows = []
for d in sorted(glob.glob('/verif/seeded/*')):
    m = json.load(open(os.path.join(d, 'meta.json')))
    name = os.path.basename(d)
    if name.startswith('harmless_'):
        rows.append((name, '-', m['summary'][:110], 'none (as required)' if not m['alarms'] else 'ALARMS: ' + ', '.join(m['alarms']),
                     ', '.join(sorted(m.get('proved_on_table_model_only', {}))) or '-'))
    else:
        nf = set(m.get('no_failing_input_only', []))
        caught = ', '.join(p + (' (no input)' if p in nf else '') for p in m.get('caught_by', []))
        rows.append((name, m.get('breaks') or '?', (m.get('summary') or '')[:110].replace('|', '/'), caught or 'MISSED', '-'))
print("| seeded change | breaks | what it is | checks that raise it (with a replayable input unless noted) | proved on tables only |")
print("|---|---|---|---|---|")
for r in rows:
    print("| %s | %s | %s | %s | %s |" % r)
