#!/usr/bin/env python3
"""Development-time: apply a behaviour-preserving rewrite to /repo, run all checks, undo it; every check
must stay silent.  harmless_eval.py <name> <dir with patch.diff, desc.txt>"""
import sys, os, json, subprocess, shutil, time
def sh(cmd, cwd=None, timeout=3000):
    # evidence written while a seeded change is applied must not overwrite the committed evidence
    p = subprocess.run(cmd, shell=True, cwd=cwd, env=dict(os.environ, VERIF_EVIDENCE_DIR='/tmp/seed_evidence'), stdout=subprocess.PIPE, stderr=subprocess.STDOUT, timeout=timeout)
    return p.returncode, p.stdout.decode('utf-8', 'replace')
name, src = sys.argv[1], sys.argv[2]
patch = os.path.abspath(os.path.join(src, 'patch.diff'))
rc, out = sh('git -C /repo status --porcelain')
assert not out.strip(), "/repo not clean"
alarms, degraded = {}, {}
t0 = time.time()
try:
    rc, out = sh('git -C /repo apply %s' % patch); assert rc == 0, out
    rc, out = sh('cargo test --offline --lib 2>&1 | grep "test result"', cwd='/repo'); suite = out.strip()
    sh('./check prepare', cwd='/verif')
    for i in range(1, 21):
        pid = 'C%02d' % i
        rc, out = sh('./check %s quick' % pid, cwd='/verif')
        if rc != 0:
            alarms[pid] = [l for l in out.split('\n') if l.startswith('VIOLATION')][:1]
        if 'degraded' in out:
            degraded[pid] = [l for l in out.split('\n') if l.startswith('note:')][:1]
finally:
    sh('git -C /repo checkout -- .')
    shutil.rmtree('/verif/replays', ignore_errors=True)
d = os.path.join('/verif/seeded', 'harmless_' + name)
os.makedirs(d, exist_ok=True)
if os.path.abspath(d) != os.path.abspath(src):
    shutil.copy(patch, d)
try:
    summary = open(os.path.join(src, 'desc.txt')).read().split('\n')[0]
except OSError:
    summary = json.load(open(os.path.join(src, 'meta.json'))).get('summary', '')
meta = {'kind': 'behaviour-preserving rewrite', 'summary': summary, 'existing_suite': suite,
        'expected': 'no check raises an alarm', 'alarms': alarms, 'proved_on_table_model_only': degraded, 'wall_s': round(time.time() - t0)}
json.dump(meta, open(os.path.join(d, 'meta.json'), 'w'), indent=1)
print(name, 'alarms:', alarms, 'degraded:', sorted(degraded))
