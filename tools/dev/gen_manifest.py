#!/usr/bin/env python3
"""Development-time generator of MANIFEST.json (kept valid against /root/.vp/MANIFEST.schema.json)."""
import json, sys
sys.path.insert(0, '/verif/tools')
from props import PROPS
R = "Coq proof by reflection: kernel evaluation (vm_compute) of a checker over the complete finite domain, lifted to the universally quantified statement by proved completeness of the enumerations"
T = {
 'C01': ("for EVERY Set 2 byte stream of any length the decoder's outputs equal those of the reference prefix automaton over the README/IBM table: bisimulation theorem (induction over the stream) instantiated by a kernel-evaluated closure check on 6 contexts x 256 bytes; proved on the model regenerated from the source and on the transition table of the compiled crate, which are themselves proved bisimilar",
         "Coq proof: generic bisimulation theorem + closure check by vm_compute"),
 'C02': ("same as C01 for Set 1 (3 contexts x 256 bytes), stated with the 20 cells of the open known finding F1 (JIS keys filed under E0) excepted and everything else required", "Coq proof: bisimulation with excepted cells + closure check by vm_compute"),
 'C03': ("for all 10 layouts x 47-49 chart keys x 512 modifier records x 2 modes the result is the character the reference chart (my transcription of the national standards, self-checked) prints at the selected level; AltGr constrained where the layout produces a distinct character", R),
 'C04': ("for EVERY layout implementation and every sequence of key events, mode changes and layout changes the reported modifier record equals the declarative reading of the event history (last event per momentary key, parity of lock presses, Pause exception): symbolic step equality on the generated generic code + history theorem by induction; the same on the 1024-state x 372-event table of the compiled crate", "Coq proof: symbolic refinement of the generated code to an abstract step + induction over histories"),
 'C05': ("all 2048 frames, every decoder state: add_word = Spec check (start 0, stop 1, odd parity, data bits LSB first, error order); round-trip and single-bit-corruption corollaries on the Spec", R),
 'C06': ("for EVERY sequence of add_bit/clear operations the bit-serial decoder's results equal the abstract decoder that collects 11 bits and applies whole-word checking: bisimulation over all 2047 partial-frame states x {0,1,clear}; frame independence and clear as corollaries", "Coq proof: generic bisimulation theorem + closure check by vm_compute"),
 'C07': ("both sets: every transition that reports an event or error ends in the initial state (all reachable states x 256 bytes), hence outputs after such a point equal those of a fresh decoder (theorem by induction); silence bound 2 (Set 2) / 1 (Set 1) proved tight", "Coq proof: reachable-state invariant + resynchronisation and silence-bound theorems by induction, instantiated by vm_compute checks"),
 'C09': ("10 layouts x 124 keys x 512 records: Ctrl (no Alt) on a key that types a..z yields the control character of THAT letter in mapping mode; mapping changes nothing when Ctrl is not held or the key is not a letter key", R),
 'C10': ("10 layouts x 124 keys x 256 records x 2 modes: on cased keys CapsLock = inverted Shift; on all other keys CapsLock changes nothing", R),
 'C11': ("results depend on the nine flags only through Shift, Ctrl, AltGr, CapsLock and (numpad keys) NumLock: every record gives the result of its canonical representative (10 x 124 x 512 x 2); the five public predicates equal their definitions on all 512 records", R),
 'C12': ("10 layouts x 95 printable ASCII characters: a key and plain level (none / Shift / AltGr) typing it exists, in both modes (witness computed and checked in the kernel)", R),
 'C13': ("through both decoders from their initial states: every translatable Set 2 make/break sequence and its i8042 translation decode to the same key event, and every Set 1 sequence has a Set 2 preimage decoding to the same event; the 20 sequences of known finding F1 excepted", R),
 'C14': ("for EVERY layout implementation, decoder state and event: exactly one decoded key per press (the raw key for modifier/lock keys, PauseBreak for NumLock under the hidden Ctrl, otherwise the installed layout applied to exactly the current key, modifiers and mode), none per release/one-shot; mode and layout changes take effect on the next key - symbolic proof on the generated generic code; the same with a recording layout on the tables of the compiled crate (1024 states x 372 events)", "Coq proof: symbolic case analysis with the layout function kept universally quantified"),
 'C15': ("10 layouts x 17 numpad + 6 editing keys x 512 records x 2 modes: digits / navigation aliases by NumLock, operators, Enter = Return, decimal separator per national keyboard, editing control characters", R),
 'C16': ("30 layout objects x 124 keys x 512 records x 2 modes: the 52 character-less keys are raw everywhere; every raw result is the key itself or a numpad key's navigation alias with NumLock off", R),
 'C17': ("both wrapper impls equal the wrapped layout on every cell (symbolic proof per arm on the generated code, plus the exhaustive table comparison); the ten layouts are pairwise distinguishable", "Coq proof: symbolic per-arm equality + reflection"),
 'C18': ("for EVERY scancode-set implementation and EVERY layout, each Keyboard operation equals the composition of the three stage functions (symbolic proof on the generated generic code; rejected frames change nothing, clear touches only the frame stage, ...); the real Keyboard is compared with three separately driven stage objects on 2.4 M (quick) per-operation cases covering every fed-stage state x input", "Coq proof: symbolic refinement to the stage composition, stages opaque and universally quantified; exhaustive per-operation differential on the crate"),
 'C08': ("in the checked-arithmetic model (Panic = panic, overflow, out-of-range shift, unreachable trap) no reachable call panics: both scancode decoders on every byte stream (reachable-state invariant: only 3 of 6 states occur in Set 1), the frame decoder on every bit/clear sequence and all 65536 words, the event decoder for every non-panicking layout (symbolic), all 30 layout objects on 124 x 512 x 2 cells returning valid scalar values; the same on the tables of the debug-profile crate (overflow checks on, catch_unwind); partial in one respect: stack use and code generation are outside a source-level model", "Coq proof: invariants by induction + reflection; panics modelled as an outcome"),
 'C20': ("rustc decides: a generated #![no_std] probe crate with one const and one static item per constructor x (10 layouts + 10 AnyLayout variants) x 2 scancode sets, const evaluation of getters and predicates, Send + Sync instantiations for every public state type (325 items); Coq carries only a model of the declarations (const-ness closed under calls, structural auto-trait rule, no manual impls) regenerated from the source, proved and required to agree", "rustc on a generated probe crate (judge) + Coq theorem about the declaration model"),
 'C19': ("both sets, all 3 prefixes x 256 codes through the decoder: make decodes to Down K iff break decodes to Up K (status codes aside); distinct complete sequences press distinct keys", R),
}
NOTE = "Trusted: Coq 8.16.1 kernel and vm_compute; no axioms (Print Assumptions checked on every run); translator tools/rs2v.py tied to the compiled crate by the exhaustive kernel-checked correspondence Corr/*.v; harness table dumps (Debug rendering = whole state); hand-written Spec. No extraction."
m = {"version": 1, "setup_cmd": "./setup.sh",
     "hooks": {"guard": "verif-hooks", "enable": "cargo feature: the harness depends on pc-keyboard with features=[\"verif-hooks\"] (derives Debug/Clone/PartialEq/Eq on ScancodeSet1/2)",
               "baseline_off_cmd": "cd /repo && cargo test --workspace --no-fail-fast --offline", "source_commits": ["b2bed36"], "add_only": True},
     "engines": [{"name": "coq-rs2v", "path": "check", "serves_properties": sorted(T),
                  "kind_free_text": "Coq 8.16 proofs about a Gallina model regenerated from the Rust source on every run by tools/rs2v.py, the same theorems on behaviour tables dumped from the compiled crate, and kernel-checked exhaustive correspondence between the two"}],
     "checks": [], "not_applicable": [], "notes": "see DESIGN.md; KNOWN_FINDINGS.txt lists open and fixed findings"}
props = [json.loads(l)['id'] for l in open('/verif/properties.jsonl')]
for p in props:
    if p in T and p in PROPS:
        text, tech = T[p]
        m["checks"].append({"property_id": p, "quick_cmd": "./check %s quick" % p, "thorough_cmd": "./check %s thorough" % p,
                            "evidence_file": "evidence/%s.json" % p, "replay_cmd_template": "./check replay {path}", "engine": "coq-rs2v",
                            "level_claimed": {"category": PROPS[p].get('level', 'proof'), "text": text, "design_ref": "DESIGN.md section 7"},
                            "level_note": NOTE, "technique": tech})
    else:
        m["not_applicable"].append({"property_id": p, "reason": "check under construction in this session; to be claimed as soon as its theorem is in place"})
json.dump(m, open('/verif/MANIFEST.json', 'w'), indent=1)
print(len(m['checks']), 'checks;', [x['property_id'] for x in m['not_applicable']])
