#!/usr/bin/env python3
"""Development-time helper (not used by the checks): print the README conversion table as Coq rows.
The committed coq/Spec/ScanRef.v was produced with it and then corrected by hand in two places
(NumpadEnter Set 2 = E0 5A, Apps Set 1 = E0 5D: the README rows duplicate the row above them)."""
import re, sys
rows = []
for l in open('/repo/README.md'):
    m = re.match(r'^\| (\w+)\s+\| (0x[0-9A-F]+|--)\s+\| (0x[0-9A-F]+|--)\s+\|', l)
    if m and m.group(1) != 'Symbolic':
        rows.append(m.groups())
def code(c):
    if c == '--': return 'None'
    v = c[2:]
    if len(v) == 2: return 'Some (P0, 0x%s)' % v.lower()
    return 'Some (P%s, 0x%s)' % (v[:2], v[2:].lower())
for k, a, b in rows:
    print("  (KeyCode_%s, %s, %s);" % (k, code(a), code(b)))
