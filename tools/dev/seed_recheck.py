#!/usr/bin/env python3
"""Development-time: re-run some checks against already confirmed seeded changes and merge the outcome
into their meta.json.

  seed_recheck.py <check ids, comma separated | all> <seed names...>
"""
import sys, os, json, subprocess, shutil, re, time

def sh(cmd, cwd=None, timeout=3000):
    p = subprocess.run(cmd, shell=True, cwd=cwd, env=dict(os.environ, VERIF_EVIDENCE_DIR='/tmp/seed_evidence'),
                       stdout=subprocess.PIPE, stderr=subprocess.STDOUT, timeout=timeout)
    return p.returncode, p.stdout.decode('utf-8', 'replace')

def main():
    ids = ['C%02d' % i for i in range(1, 21)] if sys.argv[1] == 'all' else sys.argv[1].split(',')
    for name in sys.argv[2:]:
        d = os.path.join('/verif/seeded', name)
        patch = os.path.join(d, 'patch.diff')
        meta = json.load(open(os.path.join(d, 'meta.json')))
        rc, out = sh('git -C /repo status --porcelain')
        if out.strip():
            print("/repo is not clean; refusing")
            return 2
        res = {}
        try:
            rc, out = sh('git -C /repo apply %s' % patch)
            assert rc == 0, out
            sh('./check prepare', cwd='/verif')
            for pid in ids:
                rc, out = sh('./check %s quick' % pid, cwd='/verif')
                viol = [l for l in out.split('\n') if l.startswith('VIOLATION')]
                res[pid] = (rc, viol)
                for v in viol[:1]:
                    m = re.search(r'replay=(\S+)', v)
                    if m and os.path.exists(m.group(1)):
                        rd = os.path.join(d, 'replays')
                        os.makedirs(rd, exist_ok=True)
                        for old in os.listdir(rd):
                            if old.startswith(pid + '-'):
                                os.remove(os.path.join(rd, old))
                        shutil.copy(m.group(1), rd)
        finally:
            sh('git -C /repo checkout -- .')
            shutil.rmtree('/verif/replays', ignore_errors=True)
        caught = set(meta.get('caught_by', [])) - set(ids)
        quiet = set(meta.get('no_alarm_from', [])) - set(ids)
        nfi = set(meta.get('no_failing_input_only', [])) - set(ids)
        for pid, (rc, viol) in res.items():
            (caught if rc != 0 else quiet).add(pid)
            if rc != 0 and viol and all('no-failing-input-found' in v for v in viol):
                nfi.add(pid)
        meta['caught_by'] = sorted(caught)
        meta['no_alarm_from'] = sorted(quiet)
        meta['no_failing_input_only'] = sorted(nfi)
        meta['checks_run'] = sorted(set(meta.get('checks_run', [])) | set(ids))
        json.dump(meta, open(os.path.join(d, 'meta.json'), 'w'), indent=1)
        print(name, {p: ('ALARM' + (' (no input)' if p in nfi else '')) if r[0] else 'quiet' for p, r in res.items()})
    return 0

if __name__ == '__main__':
    sys.exit(main())
