#!/usr/bin/env python3
"""Development-time generator for the layout property files (Props/Cxx.v, Props/Cxx_ext.v, Cex/Cxx_*.v).
The generated files are committed; this script only saves typing."""
import sys
P = {
 'C17': dict(checks=[('ok17', 'ok_C17 LI'), ('dist', 'all_distinct LI')],
             thms=[('C17', 'C17_sound LI ok17'), ('C17_distinct', 'distinct_sound LI dist')],
             extra_syn='''
(* symbolic: each wrapper arm returns whatever the wrapped layout returns, for every key, record and mode *)
Theorem C17_arms : forall l k m hc,
  AnyLayout_map_keycode l k m hc = syn_lay_map l k m hc /\\ RefAnyLayout_map_keycode l k m hc = syn_lay_map l k m hc.
Proof.
  intros l k m hc. destruct l as [x|x|x|x|x|x|x|x|x|x]; split;
    cbv [AnyLayout_map_keycode RefAnyLayout_map_keycode syn_lay_map Base.Ctl.run_fn Base.Ctl.cbind Base.Ctl.call Base.Ctl.cret];
    match goal with |- context [match ?t with Ret _ => _ | Panic => _ end] => destruct t end; reflexivity.
Qed.
Print Assumptions C17_arms.
''', cex='cex_C17', enc3=True),
 'C16': dict(checks=[('ok16', 'ok_C16 LI')], thms=[('C16', 'C16_sound LI ok16')], cex='cex_C16', enc3=True),
 'C15': dict(checks=[('ok15', 'all_ok_C15 LI')],
             thms=[('C15_digits_', 'C15_digits LI ok15'), ('C15_fixed_', 'C15_fixed LI ok15'), ('C15_enter_', 'C15_enter LI ok15'), ('C15_decimal_', 'C15_decimal LI ok15')],
             cex='cex_C15'),
 'C11': dict(checks=[('ok11', 'ok_C11 LI'), ('okp', 'cex_pred PI = []')],
             thms=[('C11', 'C11_sound LI ok11'), ('C11_predicates', 'preds_sound PI okp')], cex='cex_C11', needs_preds=True),
 'C09': dict(checks=[('ok09', 'ok_C09 LI')], thms=[('C09', 'C09_sound LI ok09'), ('C09_inert_', 'C09_inert LI ok09')], cex='cex_C09', known=True),
 'C10': dict(checks=[('ok10', 'ok_C10 LI')], thms=[('C10', 'C10_sound LI ok10')], cex='cex_C10', known=True),
 'C12': dict(checks=[('ok12', 'cex_C12 LI = []')], thms=[('C12', 'C12_sound LI ok12')], cex=None, known=True),
 'C03': dict(checks=[('ok03', 'ok_C03 LI')], thms=[('C03', 'C03_sound LI ok03')], cex='cex_C03', known=True, chart=True),
}
def gen(pid, outdir):
    c = P[pid]
    for inst in ('syn', 'ext'):
        sfx = '' if inst == 'syn' else '_ext'
        imp = 'Gen.All Syn.Lay Syn.Preds' if inst == 'syn' else 'Ext.Lay ExtI.Lay'
        chart = ' Spec.Charts' if c.get('chart') else ''
        s = "(* %s on %s *)\n" % (pid, 'the model regenerated from the source (G_syn)' if inst == 'syn' else 'the tables of the compiled crate (G_ext)')
        s += "From Coq Require Import NArith Bool List String.\n"
        s += "From PK Require Import Base.Outcome Base.Finite Gen.Types Impl Spec.Known%s %s Check.Lay %sCheck.%s.\n" % (chart, imp, 'Check.C16 ' if pid == 'C15' else '', pid)
        s += "Import ListNotations.\nNotation LI := %s_lay.\nNotation PI := %s_preds.\n\n" % (inst, inst)
        for n, st in c['checks']:
            s += "Lemma %s : %s%s. Proof. vm_compute. reflexivity. Qed.\n" % (n, st, '' if '=' in st else ' = true')
        s += "\n"
        for n, pf in c['thms']:
            s += "Definition %s%s := %s.\nCheck %s%s.\nPrint Assumptions %s%s.\n" % (n, sfx, pf, n, sfx, n, sfx)
        if inst == 'syn':
            s += c.get('extra_syn', '')
            s += 'Eval vm_compute in ("evaluations"%string, (10 * 124 * 512 * 2)%N).\n'
        open('%s/Props/%s%s.v' % (outdir, pid, sfx), 'w').write(s)
        if c.get('cex'):
            t = "From Coq Require Import NArith Bool List String.\n"
            t += "From PK Require Import Base.Outcome Base.Finite Gen.Types Impl Spec.Known%s %s Check.Lay %sCheck.%s Enc.\n" % (chart, imp, 'Check.C16 ' if pid == 'C15' else '', pid)
            t += "Import ListNotations.\nNotation LI := %s_lay.\n" % inst
            t += "(* witness: layout index, key, modifier bits, mode; actual = what the layout returns there *)\n"
            t += 'Eval vm_compute in ("cex"%%string, map (fun c : cell => let \'(l, k, m, hc) := c in (enc_cell c, %s, enc_dk (lay_map LI l k m hc))) (firstn 80 (per_key (%s LI)))).\n' % (c.get('expected', '([] : list N)'), c['cex'])
            t += 'Eval vm_compute in ("failing_cells"%%string, N.of_nat (List.length (%s LI))).\n' % c['cex']
            open('%s/Cex/%s_%s.v' % (outdir, pid, inst), 'w').write(t)
if __name__ == '__main__':
    for pid in sys.argv[2:]:
        gen(pid, sys.argv[1])
