#!/usr/bin/env python3
"""Development-time generator of coq/Spec/Charts.v from the chart text below (my transcription of the
national / ergonomic layout standards; Appendix C of DESIGN.md).  Not used by the checks.
Cell syntax:  base shift [altgr]   - each a string of alternatives; '?' = unconstrained; '' altgr = none."""
import sys
KEYS = ['Oem8','Key1','Key2','Key3','Key4','Key5','Key6','Key7','Key8','Key9','Key0','OemMinus','OemPlus',
        'Q','W','E','R','T','Y','U','I','O','P','Oem4','Oem6','Oem7',
        'A','S','D','F','G','H','J','K','L','Oem1','Oem3','Oem5',
        'Z','X','C','V','B','N','M','OemComma','OemPeriod','Oem2','Oem12','Oem13']
def letters(s):  # 'q' -> ('q','Q','')
    return {k: (c, c.upper(), '') for k, c in s.items()}
QWERTY = dict(zip('QWERTYUIOPASDFGHJKLZXCVBNM', 'qwertyuiopasdfghjklzxcvbnm'))
def lay(**over):
    d = letters(QWERTY)
    d.update(over)
    return d
US_NUM = dict(Oem8=('`','~',''), Key1=('1','!',''), Key2=('2','@',''), Key3=('3','#',''), Key4=('4','$',''), Key5=('5','%',''),
              Key6=('6','^',''), Key7=('7','&',''), Key8=('8','*',''), Key9=('9','(',''), Key0=('0',')',''))
US_PUNCT = dict(OemMinus=('-','_',''), OemPlus=('=','+',''), Oem4=('[','{',''), Oem6=(']','}',''), Oem7=('\\','|',''),
                Oem1=(';',':',''), Oem3=("'",'"',''), OemComma=(',','<',''), OemPeriod=('.','>',''), Oem2=('/','?',''))
L = {}
L['Us104Key'] = lay(**US_NUM, **US_PUNCT)
uk = dict(US_NUM); uk.update(US_PUNCT)
uk.update(Oem8=('`','¬','|¦'), Key2=('2','"',''), Key3=('3','£',''), Key4=('4','$','€'), Oem7=('#','~',''), Oem3=("'",'@',''), Oem5=('\\','|',''))
L['Uk105Key'] = lay(**uk)
for v, a in zip('AEIOU', 'áéíóú'):
    L['Uk105Key'][v] = (v.lower(), v, a)
L['De105Key'] = lay(Oem8=('^','°',''), Key1=('1','!',''), Key2=('2','"','²'), Key3=('3','§','³'), Key4=('4','$',''), Key5=('5','%',''),
    Key6=('6','&',''), Key7=('7','/','{'), Key8=('8','(','['), Key9=('9',')',']'), Key0=('0','=','}'), OemMinus=('ß','?','\\'),
    OemPlus=('´','`',''), Q=('q','Q','@'), E=('e','E','€'), Y=('z','Z',''), Oem4=('ü','Ü',''), Oem6=('+','*','~'), Oem7=('#',"'",''),
    Oem1=('ö','Ö',''), Oem3=('ä','Ä',''), Oem5=('<','>','|'), Z=('y','Y',''), M=('m','M','µ'),
    OemComma=(',',';',''), OemPeriod=('.',':',''), Oem2=('-','_',''))
L['Azerty'] = lay(Oem8=('²','?',''), Key1=('&','1',''), Key2=('é','2','~'), Key3=('"','3','#'), Key4=("'",'4','{'), Key5=('(','5','['),
    Key6=('-','6','|'), Key7=('è','7','`'), Key8=('_','8','\\'), Key9=('ç','9','^'), Key0=('à','0','@'), OemMinus=(')','°',']'),
    OemPlus=('=','+','}'), Q=('a','A',''), W=('z','Z',''), E=('e','E','€'), Oem4=('^','¨','?'), Oem6=('$','£','¤'), Oem7=('*','µ',''),
    A=('q','Q',''), Oem1=('m','M',''), Oem3=('ù','%',''), Oem5=('<','>',''), Z=('w','W',''), M=(',','?',''),
    OemComma=(';','.',''), OemPeriod=(':','/',''), Oem2=('!','§',''))
nordic = dict(Key1=('1','!',''), Key2=('2','"','@'), Key3=('3','#','£'), Key4=('4','¤','$'), Key5=('5','%','€'), Key6=('6','&',''),
    Key7=('7','/','{'), Key8=('8','(','['), Key9=('9',')',']'), Key0=('0','=','}'), E=('e','E','€'), Oem4=('å','Å',''),
    Oem6=('¨','^','~'), Oem7=("'",'*',''), M=('m','M','µ'), OemComma=(',',';',''), OemPeriod=('.',':',''), Oem2=('-','_',''))
L['No105Key'] = lay(Oem8=('|','§',''), OemMinus=('+','?',''), OemPlus=('\\','`','´'), Oem1=('ø','Ø',''), Oem3=('æ','Æ',''), Oem5=('<','>',''), **nordic)
L['FiSe105Key'] = lay(Oem8=('§','½',''), OemMinus=('+','?','\\'), OemPlus=('´','`',''), Oem1=('ö','Ö',''), Oem3=('ä','Ä',''), Oem5=('<','>','|'), **nordic)
L['Jis109Key'] = lay(Key1=('1','!',''), Key2=('2','"',''), Key3=('3','#',''), Key4=('4','$',''), Key5=('5','%',''), Key6=('6','&',''),
    Key7=('7',"'",''), Key8=('8','(',''), Key9=('9',')',''), Key0=('0','~',''), OemMinus=('-','=',''), OemPlus=('^','¯~',''),
    Oem4=('@','`',''), Oem6=('[','{',''), Oem7=(']','}',''), Oem1=(';','+',''), Oem3=(':','*',''),
    OemComma=(',','<',''), OemPeriod=('.','>',''), Oem2=('/','?',''), Oem12=('\\','_',''), Oem13=('¥','|',''))
cm = dict(zip('QWERTYUIOPASDFGHJKLZXCVBNM', 'qwfpgjluy;arstdhneizxcvbkm'))
col = letters({k: c for k, c in cm.items() if c != ';'})
col.update(US_NUM); col.update(US_PUNCT)
col.update(P=(';',':',''), Oem1=('o','O',''))
L['Colemak'] = col
dv = dict(R='p', T='y', Y='f', U='g', I='c', O='r', P='l', A='a', S='o', D='e', F='u', G='i', H='d', J='h', K='t', L='n',
          X='q', C='j', V='k', B='x', N='b', M='m')
dvo = letters(dv)
dvo.update(Q=("'",'"',''), W=(',','<',''), E=('.','>',''), Oem4=('/','?',''), Oem7=('\\','|',''), Oem1=('s','S',''), Oem3=('-','_',''),
           Z=(';',':',''), OemComma=('w','W',''), OemPeriod=('v','V',''), Oem2=('z','Z',''))
d1 = dict(dvo); d1.update(US_NUM); d1.update(OemMinus=('[','{',''), OemPlus=(']','}',''), Oem6=('=','+',''))
L['Dvorak104Key'] = d1
d2 = dict(dvo)
d2.update(Oem8=('$','~',''), Key1=('&','%',''), Key2=('[','7',''), Key3=('{','5',''), Key4=('}','3',''), Key5=('(','1',''), Key6=('=','9',''),
          Key7=('*','0',''), Key8=(')','2',''), Key9=('+','4',''), Key0=(']','6',''), OemMinus=('!','8',''), OemPlus=('#','`',''),
          Q=(';',':',''), Oem6=('@','^',''), Z=("'",'"',''))
L['DVP104Key'] = d2
ORDER = ['DVP104Key','Dvorak104Key','Us104Key','Uk105Key','Jis109Key','Azerty','Colemak','De105Key','No105Key','FiSe105Key']
def cset(s, opt):
    if s == '?':
        return 'None'
    return 'Some [%s]' % '; '.join(str(ord(c)) for c in s)
out = ['''(* Reference charts of the ten layouts: for each character key of the main block the characters the
   national / ergonomic standard prints on it - unshifted, shifted, AltGr.  [None] = left unconstrained
   (published references disagree); a list of several code points = any of them is accepted.
   Generated once by tools/dev/gen_charts.py from my transcription; hand-maintained afterwards. *)
From Coq Require Import NArith Bool List.
From PK Require Import Base.Outcome Base.Finite Gen.Types Impl.
Import ListNotations.
Local Open Scope N_scope.

Record chart_cell : Type := { c_base : list N; c_shift : option (list N); c_altgr : option (list N) }.
Definition cc (b : list N) (s a : option (list N)) : chart_cell := {| c_base := b; c_shift := s; c_altgr := a |}.
''']
for name in ORDER:
    out.append("Definition chart_%s (k : KeyCode) : option chart_cell :=\n  match k with\n" % name)
    for k in KEYS:
        if k in L[name]:
            b, s, a = L[name][k]
            safe = lambda t: ''.join(c for c in t if c.isalnum() and ord(c) < 128)
            out.append("  | KeyCode_%s => Some (cc [%s] (%s) (%s))%s\n" % (
                k, '; '.join(str(ord(c)) for c in b), cset(s, True), cset(a, True),
                ('   (* %s %s *)' % (safe(b), safe(s))) if safe(b) and safe(b) == b and safe(s) == s else ''))
    out.append("  | _ => None\n  end.\n")
out.append("Definition chart (l : AnyLayout) : KeyCode -> option chart_cell :=\n  match l with\n")
for name in ORDER:
    out.append("  | AnyLayout_%s _ => chart_%s\n" % (name, name))
out.append("  end.\n")
out.append('''
(* --- self-checks of the charts --- *)
Definition chart_keys (l : AnyLayout) : list KeyCode := filter (fun k => match chart l k with Some _ => true | None => false end) all_KeyCode.
(* every chart has each of a..z exactly once at base level, with its capital at shift level *)
Definition letters_once (l : AnyLayout) : bool :=
  forallb (fun c => N.eqb 1 (N.of_nat (length (filter (fun k => match chart l k with
      | Some cell => match c_base cell, c_shift cell with [b], Some [s] => (b =? c) && (s =? c - 32) | _, _ => false end
      | None => false end) all_KeyCode)))) (count_from 26 97).
Lemma charts_have_all_letters : forallb letters_once all_AnyLayout = true.
Proof. vm_compute. reflexivity. Qed.
(* 47 to 49 character keys per keyboard; every cell is a valid scalar value *)
Lemma chart_sizes : map (fun l => N.of_nat (length (chart_keys l))) all_AnyLayout = [47; 47; 47; 48; 48; 48; 47; 48; 48; 48].
Proof. vm_compute. reflexivity. Qed.
''')
open(sys.argv[1], 'w').write(''.join(out))
