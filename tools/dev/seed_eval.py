#!/usr/bin/env python3
"""Development-time: confirm a seeded change independently and run the checks against it.

  seed_eval.py <name> <dir with patch.diff, seed_demo.rs, meta.json> [check ids...]

1. in a fresh scratch worktree of /repo: the demo passes without the patch; with the patch the crate
   compiles, the 32 existing tests pass and the demo fails;
2. apply the patch to /repo, run the checks (all 20 unless ids are given), undo it straight afterwards;
3. keep the change as /verif/seeded/<name>/ (patch.diff, seed_demo.rs, meta.json with what was run and
   which checks raised a violation)."""
import sys, os, json, subprocess, shutil, re, time

def sh(cmd, cwd=None, timeout=3000):
    # evidence written while a seeded change is applied must not overwrite the committed evidence
    p = subprocess.run(cmd, shell=True, cwd=cwd, env=dict(os.environ, VERIF_EVIDENCE_DIR='/tmp/seed_evidence'), stdout=subprocess.PIPE, stderr=subprocess.STDOUT, timeout=timeout)
    return p.returncode, p.stdout.decode('utf-8', 'replace')

def main():
    name, src = sys.argv[1], sys.argv[2]
    ids = sys.argv[3:] or ['C%02d' % i for i in range(1, 21)]
    patch = os.path.abspath(os.path.join(src, 'patch.diff'))
    demo = os.path.abspath(os.path.join(src, 'seed_demo.rs'))
    meta = json.load(open(os.path.join(src, 'meta.json')))
    wt = '/tmp/seedcheck_' + name
    sh('git -C /repo worktree remove --force %s' % wt)
    rc, out = sh('git -C /repo worktree add -q --detach %s HEAD' % wt)
    ran = []
    ok = True
    try:
        democrate = os.path.join(src, 'demo')
        if os.path.isdir(democrate):
            # compile-time property: the demonstration is a tiny crate that must build / fail to build
            dc = wt + '_demo'
            shutil.rmtree(dc, ignore_errors=True)
            shutil.copytree(democrate, dc, ignore=shutil.ignore_patterns('target', 'Cargo.lock'))
            t = open(os.path.join(dc, 'Cargo.toml')).read()
            t = re.sub(r'path = "[^"]*"', 'path = "%s"' % wt, t)
            open(os.path.join(dc, 'Cargo.toml'), 'w').write(t)
            rc, out = sh('cargo check --offline 2>&1 | tail -3', cwd=dc)
            base_pass = 'Finished' in out
            ran.append('unchanged tree: cargo check of the demo crate -> %s' % ('builds' if base_pass else 'FAILS'))
        else:
            os.makedirs(os.path.join(wt, 'tests'), exist_ok=True)
            shutil.copy(demo, os.path.join(wt, 'tests', 'seed_demo.rs'))
            rc, out = sh('cargo test --offline --test seed_demo 2>&1 | tail -5', cwd=wt)
            base_pass = 'test result: ok' in out
            ran.append('unchanged tree: cargo test --test seed_demo -> %s' % ('pass' if base_pass else 'FAIL'))
        rc, out = sh('git apply %s' % patch, cwd=wt)
        if rc != 0:
            ran.append('git apply failed: ' + out[-300:])
            ok = False
        rc, out = sh('cargo test --offline --lib 2>&1 | grep "test result" | head -1', cwd=wt)
        suite = '32 passed; 0 failed' in out
        ran.append('patched tree: cargo test --lib -> %s' % out.strip())
        if os.path.isdir(democrate):
            rc, out = sh('cargo check --offline 2>&1 | grep -c "^error"', cwd=dc)
            demo_fails = out.strip() not in ('', '0')
            ran.append('patched tree: cargo check of the demo crate -> %s' % ('fails to build (as required)' if demo_fails else 'BUILDS'))
            shutil.rmtree(dc, ignore_errors=True)
            if os.path.isdir(democrate):
                d2 = os.path.join('/verif/seeded', name, 'demo')
                shutil.rmtree(d2, ignore_errors=True)
                shutil.copytree(democrate, d2, ignore=shutil.ignore_patterns('target', 'Cargo.lock'))
        else:
            rc, out = sh('cargo test --offline --test seed_demo 2>&1 | tail -8', cwd=wt)
            demo_fails = 'test result: FAILED' in out or 'panicked' in out
            ran.append('patched tree: cargo test --test seed_demo -> %s' % ('fails (as required)' if demo_fails else 'PASSES'))
        ok = ok and base_pass and suite and demo_fails
    finally:
        sh('git -C /repo worktree remove --force %s' % wt)
    print('\n'.join(ran))
    if not ok:
        print("NOT CONFIRMED - not kept")
        return 1
    # run the checks on /repo with the patch applied
    rc, out = sh('git -C /repo status --porcelain')
    if out.strip():
        print("/repo is not clean; refusing")
        return 2
    caught, missed, outputs = [], [], {}
    t0 = time.time()
    try:
        rc, out = sh('git -C /repo apply %s' % patch)
        assert rc == 0, out
        sh('./check prepare', cwd='/verif')
        for pid in ids:
            rc, out = sh('./check %s quick' % pid, cwd='/verif')
            viol = [l for l in out.split('\n') if l.startswith('VIOLATION')]
            outputs[pid] = (rc, viol[:2], [l for l in out.split('\n') if l.startswith(pid + ':')])
            (caught if rc != 0 else missed).append(pid)
            # keep one replay per property for the record
            for v in viol[:1]:
                m = re.search(r'replay=(\S+)', v)
                if m and os.path.exists(m.group(1)):
                    d = os.path.join('/verif/seeded', name, 'replays')
                    os.makedirs(d, exist_ok=True)
                    shutil.copy(m.group(1), d)
    finally:
        sh('git -C /repo checkout -- .')
        shutil.rmtree('/verif/replays', ignore_errors=True)
    out_dir = os.path.join('/verif/seeded', name)
    os.makedirs(out_dir, exist_ok=True)
    shutil.copy(patch, os.path.join(out_dir, 'patch.diff'))
    shutil.copy(demo, os.path.join(out_dir, 'seed_demo.rs'))
    meta['breaks'] = meta.get('property')
    meta['confirmed'] = ran
    meta['checks_run'] = ids
    meta['caught_by'] = caught
    meta['no_alarm_from'] = missed
    meta['no_failing_input_only'] = [p for p in caught if all('no-failing-input-found' in v for v in outputs[p][1]) and outputs[p][1]]
    meta['wall_s'] = round(time.time() - t0)
    json.dump(meta, open(os.path.join(out_dir, 'meta.json'), 'w'), indent=1)
    print("caught by:", caught)
    print("no-failing-input only:", meta['no_failing_input_only'])
    for p in caught:
        print(p, outputs[p][1][:1])
    return 0

if __name__ == '__main__':
    sys.exit(main())
