"""Per-property configuration for ./check (which Coq files carry the proof on which model)."""

STAGE_FILES = {}

LIB = ['Base/Outcome', 'Base/Ctl', 'Base/Bits', 'Base/Finite', 'Base/Tree', 'Base/Machine', 'Impl']

def ps2_prop(pid, extra_lib, corr='Corr/Ps2Bits'):
    return {
        'lib': LIB + ['Spec/Frame', 'Check/Ps2M'] + extra_lib,
        'syn': ['Props/%s' % pid], 'needs_syn': ['Syn/Ps2'] + extra_lib,
        'ext': ['Props/%s_ext' % pid], 'needs_ext': ['ExtI/Ps2'] + extra_lib,
        'corr': [corr], 'needs_corr': ['Syn/Ps2', 'ExtI/Ps2'],
        'cex_ext': 'Cex/%s_ext' % pid, 'cex_syn': 'Cex/%s_syn' % pid,
    }


def scan_prop(pid, setn, extra_lib):
    return {
        'lib': LIB + ['Spec/ScanRef', 'Spec/ScanAuto', 'Check/Scan'] + extra_lib,
        'syn': ['Props/%s' % pid], 'needs_syn': ['Syn/Set%d' % setn] + extra_lib,
        'ext': ['Props/%s_ext' % pid], 'needs_ext': ['ExtI/Scan'] + extra_lib,
        'corr': ['Corr/Set%d' % setn], 'needs_corr': ['Syn/Set%d' % setn, 'ExtI/Scan'],
        'cex_ext': 'Cex/%s_ext' % pid, 'cex_syn': 'Cex/%s_syn' % pid,
        'replay_kind': 'bytes%d' % setn,
    }


def ev_prop(pid):
    return {
        'lib': LIB + ['Spec/Event', 'Check/Ev'],
        'syn': ['Props/%s' % pid], 'needs_syn': ['Syn/Ev', 'Check/Ev'],
        'ext': ['Props/%s_ext' % pid], 'needs_ext': ['ExtI/Ev', 'Check/Ev'],
        'corr': ['Corr/Ev'], 'needs_corr': ['Syn/Ev', 'ExtI/Ev'],
        'cex_ext': 'Cex/%s_ext' % pid, 'cex_syn': 'Cex/%s_syn' % pid,
        'replay_kind': 'evstep',
    }


def c18_extra(tier, seed, cov, notes, ctx):
    """Keyboard against three separately driven stages on the real crate (harness kbiso)."""
    import re
    rc, out, dt = ctx.sh([ctx.HARNESS, 'kbiso', 'thorough' if tier == 'thorough' else 'quick'], timeout=3000)
    viol = []
    n = sum(int(m.group(1)) for m in re.finditer(r'^N \S+ comparisons (\d+)', out, re.M))
    cov['traces_validated_against_impl'] = n
    cov['kbiso'] = [l for l in out.split('\n') if l.startswith('N ')]
    if rc != 0 or n == 0:
        path = ctx.write_replay('C18', 'unproved', {'property': 'C18', 'kind': 'no-failing-input-found', 'broken': ['harness kbiso'], 'output': {'kbiso': out[-1500:]}})
        return [(path, ' no-failing-input-found')]
    lines = out.split('\n')
    for i, l in enumerate(lines):
        if l.startswith('M '):
            desc = l[2:].strip()
            rep = {'property': 'C18', 'kind': 'kbd', 'input_text': desc, 'harness_cmd': ['replay', 'kbd', desc],
                   'crate_actual': lines[i + 1].strip(), 'expected': lines[i + 2].strip()}
            viol.append((ctx.write_replay('C18', 'cex', rep), ''))
    return viol


def lay_prop(pid, extra_lib=(), preds=False, cex=True):
    d = {
        'lib': LIB + ['Check/Lay'] + list(extra_lib) + ['Check/%s' % pid],
        'syn': ['Props/%s' % pid], 'needs_syn': ['Syn/Lay', 'Check/%s' % pid],
        'ext': ['Props/%s_ext' % pid], 'needs_ext': ['ExtI/Lay', 'Check/%s' % pid],
        'corr': ['Corr/Lay'], 'needs_corr': ['Syn/Lay', 'ExtI/Lay'],
        'replay_kind': 'layout',
    }
    if cex:
        d['cex_ext'] = 'Cex/%s_ext' % pid
        d['cex_syn'] = 'Cex/%s_syn' % pid
    return d


PROPS = {
    'C17': lay_prop('C17'),
    'C16': lay_prop('C16'),
    'C15': lay_prop('C15', ['Check/C16']),
    'C11': lay_prop('C11'),
    'C03': lay_prop('C03', ['Spec/Charts']),
    'C09': lay_prop('C09'),
    'C10': lay_prop('C10'),
    'C12': dict(lay_prop('C12'), replay_kind='typable'),
    'C18': {
        'lib': LIB + ['Spec/Compose'],
        'syn': ['Props/C18'], 'needs_syn': ['Gen/Lib', 'Spec/Compose'],
        'ext': [], 'corr': [],
        'needs_syn_generality': True,
        'extra': c18_extra, 'extra_always': True,
        'replay_kind': 'kbd',
        'exhaustive': True,
    },
    'C04': ev_prop('C04'),
    'C14': ev_prop('C14'),
    'C19': {
        'lib': LIB + ['Check/Scan', 'Check/C19'],
        'syn': ['Props/C19_set1', 'Props/C19_set2'], 'needs_syn': ['Syn/Set1', 'Syn/Set2', 'Check/C19'],
        'ext': ['Props/C19_set1_ext', 'Props/C19_set2_ext'], 'needs_ext': ['ExtI/Scan', 'Check/C19'],
        'corr': ['Corr/Set1', 'Corr/Set2'], 'needs_corr': ['Syn/Set1', 'Syn/Set2', 'ExtI/Scan'],
        'cex_ext': ['Cex/C19_set1_ext', 'Cex/C19_set2_ext'], 'cex_syn': ['Cex/C19_set1_syn', 'Cex/C19_set2_syn'],
        'replay_kind': 'two_seq',
    },
    'C13': {
        'lib': LIB + ['Spec/ScanRef', 'Spec/ScanAuto', 'Check/Scan', 'Check/C19', 'Check/C13'],
        'syn': ['Props/C13'], 'needs_syn': ['Syn/Set1', 'Syn/Set2', 'Check/C13'],
        'ext': ['Props/C13_ext'], 'needs_ext': ['ExtI/Scan', 'Check/C13'],
        'corr': ['Corr/Set1', 'Corr/Set2'], 'needs_corr': ['Syn/Set1', 'Syn/Set2', 'ExtI/Scan'],
        'cex_ext': 'Cex/C13_ext', 'cex_syn': 'Cex/C13_syn',
        'replay_kind': 'c13',
    },
    'C07': {
        'lib': LIB + ['Check/Scan', 'Check/C07'],
        'syn': ['Props/C07_set1', 'Props/C07_set2'], 'needs_syn': ['Syn/Set1', 'Syn/Set2', 'Check/C07'],
        'ext': ['Props/C07_set1_ext', 'Props/C07_set2_ext'], 'needs_ext': ['ExtI/Scan', 'Check/C07'],
        'corr': ['Corr/Set1', 'Corr/Set2'], 'needs_corr': ['Syn/Set1', 'Syn/Set2', 'ExtI/Scan'],
        'cex_ext': ['Cex/C07_set1_ext', 'Cex/C07_set2_ext'], 'cex_syn': ['Cex/C07_set1_syn', 'Cex/C07_set2_syn'],
        'replay_kind': 'bytesN',
    },
    'C01': scan_prop('C01', 2, ['Check/C01']),
    'C02': scan_prop('C02', 1, ['Check/C02']),
    'C06': dict(ps2_prop('C06', ['Check/C06']), replay_kind='bits'),
    'C05': {
        'lib': LIB + ['Spec/Frame', 'Check/C05'],
        'syn': ['Props/C05'], 'needs_syn': ['Syn/Ps2', 'Check/C05'],
        'ext': ['Props/C05_ext'], 'needs_ext': ['ExtI/Ps2', 'Check/C05'],
        'corr': ['Corr/Ps2Words'], 'needs_corr': ['Syn/Ps2', 'ExtI/Ps2'],
        'cex_ext': 'Cex/C05_ext', 'cex_syn': 'Cex/C05_syn',
        'replay_kind': 'word',
    },
}
