"""Per-property configuration for ./check (which Coq files carry the proof on which model)."""

STAGE_FILES = {}

LIB = ['Base/Outcome', 'Base/Ctl', 'Base/Bits', 'Base/Finite', 'Base/Tree', 'Base/Machine', 'Impl']

PROPS = {
    'C05': {
        'lib': LIB + ['Spec/Frame', 'Check/C05'],
        'syn': ['Props/C05'], 'needs_syn': ['Syn/Ps2', 'Check/C05'],
        'ext': ['Props/C05_ext'], 'needs_ext': ['ExtI/Ps2', 'Check/C05'],
        'corr': ['Corr/Ps2'], 'needs_corr': ['Syn/Ps2', 'ExtI/Ps2'],
        'cex_ext': 'Cex/C05_ext', 'cex_syn': 'Cex/C05_syn',
        'replay_kind': 'word',
    },
}
