"""Per-property configuration for ./check (which Coq files carry the proof on which model)."""

STAGE_FILES = {}

LIB = ['Base/Outcome', 'Base/Ctl', 'Base/Bits', 'Base/Finite', 'Base/Tree', 'Base/Machine', 'Base/Reach', 'Base/Sim', 'Impl', 'NonVacuity']

def ps2_prop(pid, extra_lib, corr='Corr/Ps2Bits'):
    return {
        'lib': LIB + ['Spec/Frame', 'Check/Ps2M'] + extra_lib,
        'syn': ['Props/%s' % pid], 'needs_syn': ['Syn/Ps2'] + extra_lib,
        'ext': ['Props/%s_ext' % pid], 'needs_ext': ['ExtI/Ps2'] + extra_lib,
        'corr': [corr], 'needs_corr': ['Syn/Ps2', 'ExtI/Ps2'],
        'cex_ext': 'Cex/%s_ext' % pid, 'cex_syn': 'Cex/%s_syn' % pid,
    }


def scan_prop(pid, setn, extra_lib):
    return {
        'lib': LIB + ['Spec/ScanRef', 'Spec/ScanAuto', 'Check/Scan'] + extra_lib,
        'syn': ['Props/%s' % pid], 'needs_syn': ['Syn/Set%d' % setn] + extra_lib,
        'ext': ['Props/%s_ext' % pid], 'needs_ext': ['ExtI/Scan'] + extra_lib,
        'corr': ['Corr/Set%d' % setn], 'needs_corr': ['Syn/Set%d' % setn, 'ExtI/Scan'],
        'cex_ext': 'Cex/%s_ext' % pid, 'cex_syn': 'Cex/%s_syn' % pid,
        'replay_kind': 'bytes%d' % setn,
        'info': ['Spec/ReadmeCheck'],
    }


def ev_prop(pid):
    return {
        'lib': LIB + ['Spec/Mods', 'Spec/Event', 'Check/EvImpl', 'Check/Ev'],
        'syn': ['Props/%s' % pid], 'needs_syn': ['Check/Ev'],
        'ext': ['Props/%s_ext' % pid], 'needs_ext': ['ExtI/Ev', 'Check/EvImpl'],
        # the recording-layout instance of the generated decoder belongs to the correspondence with the tables
        'corr': ['Corr/Ev', 'Props/%s_rec' % pid], 'needs_corr': ['Syn/Ev', 'ExtI/Ev'],
        'cex_ext': 'Cex/%s_ext' % pid, 'cex_syn': 'Cex/%s_syn' % pid,
        'replay_kind': 'evstep',
        'fallback_search': ('results' if pid == 'C14' else 'state'),
    }


def c18_extra(tier, seed, cov, notes, ctx):
    """Keyboard against three separately driven stages on the real crate (harness kbiso)."""
    import re
    rc, out, dt = ctx.sh([ctx.HARNESS, 'kbiso', 'thorough' if tier == 'thorough' else 'quick'], timeout=3000)
    viol = []
    n = sum(int(m.group(1)) for m in re.finditer(r'^N \S+ comparisons (\d+)', out, re.M))
    cov['traces_validated_against_impl'] = n
    cov['kbiso'] = [l for l in out.split('\n') if l.startswith('N ')]
    if rc != 0 or n == 0:
        path = ctx.write_replay('C18', 'unproved', {'property': 'C18', 'kind': 'no-failing-input-found', 'broken': ['harness kbiso'], 'output': {'kbiso': out[-1500:]}})
        return [(path, ' no-failing-input-found')]
    # generated operation sequences: the generated Keyboard model against the real Keyboard
    import seqdiff
    mism, err = seqdiff.run(tier, seed, cov, notes, ctx)
    if err:
        notes.append("sequence correspondence not established: " + err)
        cov['sequence_correspondence'] = 'unavailable: ' + err[:200]
    else:
        cov['sequence_correspondence'] = 'agree' if not mism else 'DISAGREE'
        for mm in mism[:3]:
            rep = {'property': 'C18', 'kind': 'seq', 'input_text': mm['ops_prefix'], 'detail': mm,
                   'note': 'generated Keyboard model and the real crate disagree on this operation sequence'}
            viol.append((ctx.write_replay('C18', 'cex', rep), ''))
    lines = out.split('\n')
    for i, l in enumerate(lines):
        if l.startswith('M '):
            desc = l[2:].strip()
            rep = {'property': 'C18', 'kind': 'kbd', 'input_text': desc, 'harness_cmd': ['replay', 'kbd', desc],
                   'crate_actual': lines[i + 1].strip(), 'expected': lines[i + 2].strip()}
            viol.append((ctx.write_replay('C18', 'cex', rep), ''))
    return viol


def lay_prop(pid, extra_lib=(), preds=False, cex=True):
    d = {
        'lib': LIB + ['Check/Lay'] + list(extra_lib) + ['Check/%s' % pid],
        'syn': ['Props/%s' % pid], 'needs_syn': ['Syn/Lay', 'Check/%s' % pid],
        'ext': ['Props/%s_ext' % pid], 'needs_ext': ['ExtI/Lay', 'Check/%s' % pid],
        'corr': ['Corr/Lay'], 'needs_corr': ['Syn/Lay', 'ExtI/Lay'],
        'replay_kind': 'layout',
    }
    if cex:
        d['cex_ext'] = 'Cex/%s_ext' % pid
        d['cex_syn'] = 'Cex/%s_syn' % pid
    return d


def c20_extra(tier, seed, cov, notes, ctx):
    """rustc is the judge: build the generated probe crate against the working tree."""
    import re, json, os, sys
    sys.path.insert(0, os.path.join(ctx.ROOT, 'tools'))
    import gen_probe
    probe = os.path.join(ctx.BUILD, 'probe')
    gj = os.path.join(ctx.COQ, 'Gen', 'gen.json')
    try:
        n = gen_probe.main(gj, probe, ctx.REPO)
    except Exception as e:  # noqa
        path = ctx.write_replay('C20', 'unproved', {'property': 'C20', 'kind': 'no-failing-input-found', 'broken': ['probe generation'], 'output': {'gen_probe': repr(e)}})
        return [(path, ' no-failing-input-found')]
    rc, out, dt = ctx.sh('cargo check --offline --message-format short 2>&1', cwd=probe, timeout=900)
    if tier == 'thorough' and rc == 0:
        rc, out2, dt = ctx.sh('cargo build --offline --release 2>&1', cwd=probe, timeout=900)
        out += out2
    idx = json.load(open(os.path.join(probe, 'index.json')))['lines']
    cov['programs'] = n
    cov['probe_items'] = n
    cov['explanation'] = ("rustc %s the generated #![no_std] probe crate: %d const/static/Send+Sync items over 10 layouts + 10 AnyLayout variants x 2 scancode sets; "
                          "the Coq theorems C20_const_fns / C20_auto_traits are about the declaration model Gen/Sigs.v and must agree" % ('accepted' if rc == 0 else 'REJECTED', n))
    cov['samples'] = [idx[k] for k in list(idx)[:6]]
    if rc == 0:
        return []
    viol = []
    seen = set()
    for m in re.finditer(r'src/lib\.rs:(\d+):\d+: error(?:\[(E\d+)\])?: ([^\n]*)', out):
        line, code, msg = m.group(1), m.group(2), m.group(3)
        item = idx.get(line, 'line ' + line)
        key = item.split('<')[0]
        if key in seen:
            continue
        seen.add(key)
        rep = {'property': 'C20', 'kind': 'probe', 'input_text': item, 'rustc_error': '%s %s' % (code or '', msg), 'probe_line': int(line),
               'probe': os.path.join(probe, 'src', 'lib.rs')}
        viol.append((ctx.write_replay('C20', 'cex', rep), ''))
        if len(viol) >= 5:
            break
    if not viol:
        path = ctx.write_replay('C20', 'unproved', {'property': 'C20', 'kind': 'no-failing-input-found', 'broken': ['probe crate does not build'], 'output': {'cargo': out[-2000:]}})
        return [(path, ' no-failing-input-found')]
    return viol


def c08_extra(tier, seed, cov, notes, ctx):
    """Search the real crate (debug profile, overflow checks on) for a panicking operation sequence."""
    import re
    rc, out, dt = ctx.sh([ctx.HARNESS, 'findpanic'], timeout=1800)
    viol = []
    cov['findpanic'] = [l for l in out.strip().split('\n')]
    for m in re.finditer(r'^PANIC (\S+) (\S+)', out, re.M):
        stage, inp = m.group(1), m.group(2)
        if stage == 'ps2':
            rep = {'property': 'C08', 'kind': 'bits', 'input_text': 'bit ops ' + inp, 'harness_cmd': ['replay', 'bits', inp],
                   'expected': 'a value, not a panic', 'model_actual': 'P'}
        else:
            rep = {'property': 'C08', 'kind': 'bytesN', 'input_text': '%s bytes %s' % (stage, inp), 'harness_cmd': ['replay', 'bytes', stage, inp],
                   'expected': 'a value, not a panic', 'model_actual': 'P'}
        rc2, out2, dt2 = ctx.sh([ctx.HARNESS] + rep['harness_cmd'])
        rep['crate_actual'] = out2.strip()
        rep['confirmed_on_crate'] = out2.strip().endswith('P')
        viol.append((ctx.write_replay('C08', 'cex', rep), ''))
    return viol


def c06_extra(tier, seed, cov, notes, ctx):
    """The property's own quantifier on the crate: every frame after every preceding frame, and after clear()."""
    import re
    rc, out, dt = ctx.sh([ctx.HARNESS, 'framepairs'], timeout=1800)
    viol = []
    m = re.search(r'N framepairs comparisons (\d+) mismatches (\d+)', out)
    if m:
        cov['traces_validated_against_impl'] = cov.get('traces_validated_against_impl', 0) + int(m.group(1))
        cov['framepairs'] = {'comparisons': int(m.group(1)), 'mismatches': int(m.group(2)), 'seconds': round(dt, 1)}
    for mm in list(re.finditer(r'^M (pair|clear) (\S+) expected_last (.*?) got (.*)$', out, re.M))[:3]:
        rep = {'property': 'C06', 'kind': 'bits', 'input_text': 'bit ops ' + mm.group(2), 'harness_cmd': ['replay', 'bits', mm.group(2)],
               'expected_text': 'ten times none, then ' + mm.group(3), 'crate_actual': mm.group(4), 'confirmed_on_crate': True}
        viol.append((ctx.write_replay('C06', 'cex', rep), ''))
    return viol


PROPS = {
    'C20': {
        'level': 'other',
        'lib': ['Check/C20'],
        'syn': ['Props/C20'], 'needs_syn': ['Gen/Sigs', 'Check/C20'],
        'ext': [], 'corr': [],
        'extra': c20_extra, 'extra_always': True, 'judge_extra': True,
        'replay_kind': 'probe',
        'trusted_base': ['rustc const checker and trait solver (the deciding judge for this property)'],
    },
    'C08': {
        'lib': LIB + ['Check/Scan', 'Check/Ps2M', 'Check/Lay', 'Check/EvImpl', 'Check/C07', 'Check/C08'],
        'syn': ['Props/C08'], 'needs_syn': ['Syn/Lay', 'Syn/Ps2', 'Syn/Set1', 'Syn/Set2', 'Check/C08'],
        'ext': ['Props/C08_ext'], 'needs_ext': ['ExtI/Lay', 'ExtI/Ps2', 'ExtI/Scan', 'ExtI/Ev', 'Check/C08'],
        'corr': ['Corr/Lay', 'Corr/Ps2Words', 'Corr/Ps2Bits', 'Corr/Set1', 'Corr/Set2', 'Corr/Ev'], 'needs_corr': [],
        'cex_ext': [('Cex/C08_ext', 'layout'), ('Cex/C08w_ext', 'word'), ('Cex/C07_set1_ext', 'bytesN'), ('Cex/C07_set2_ext', 'bytesN'),
                    ('Cex/C08b_ext', 'bits'), ('Cex/C14_ext', 'evstep')],
        'cex_syn': [('Cex/C08_syn', 'layout'), ('Cex/C08w_syn', 'word'), ('Cex/C07_set1_syn', 'bytesN'), ('Cex/C07_set2_syn', 'bytesN'),
                    ('Cex/C08b_syn', 'bits'), ('Cex/C14_syn', 'evstep')],
        'replay_kind': 'layout',
        'cex_filter': 'panic',
        'bonus': ['Props/C08_kb'],
        'extra': c08_extra, 'extra_always': True,
        'assumptions': ['stack use and code generation are outside any source-level model'],
    },
    'C17': lay_prop('C17'),
    'C16': lay_prop('C16'),
    'C15': lay_prop('C15', ['Check/C16']),
    'C11': lay_prop('C11'),
    'C03': lay_prop('C03', ['Spec/Charts']),
    'C09': lay_prop('C09'),
    'C10': lay_prop('C10'),
    'C12': dict(lay_prop('C12'), replay_kind='typable'),
    'C18': {
        'lib': LIB + ['Spec/Compose'],
        'syn': ['Props/C18'], 'needs_syn': ['Gen/Lib', 'Spec/Compose'],
        'ext': [], 'corr': [],
        'needs_syn_generality': True,
        'extra': c18_extra, 'extra_always': True,
        'bonus': ['Props/Pipeline', 'Props/PipelineEx'],
        'replay_kind': 'kbd',
        'exhaustive': True,
    },
    'C04': ev_prop('C04'),
    'C14': ev_prop('C14'),
    'C19': {
        'lib': LIB + ['Check/Scan', 'Check/C19'],
        'syn': ['Props/C19_set1', 'Props/C19_set2'], 'needs_syn': ['Syn/Set1', 'Syn/Set2', 'Check/C19'],
        'ext': ['Props/C19_set1_ext', 'Props/C19_set2_ext'], 'needs_ext': ['ExtI/Scan', 'Check/C19'],
        'corr': ['Corr/Set1', 'Corr/Set2'], 'needs_corr': ['Syn/Set1', 'Syn/Set2', 'ExtI/Scan'],
        'cex_ext': ['Cex/C19_set1_ext', 'Cex/C19_set2_ext'], 'cex_syn': ['Cex/C19_set1_syn', 'Cex/C19_set2_syn'],
        'replay_kind': 'two_seq',
    },
    'C13': {
        'lib': LIB + ['Spec/ScanRef', 'Spec/ScanAuto', 'Check/Scan', 'Check/C19', 'Check/C13', 'Check/C13s'],
        'syn': ['Props/C13', 'Props/C13s', 'Props/E2E'], 'needs_syn': ['Syn/Set1', 'Syn/Set2', 'Check/C13', 'Check/C13s', 'Seq'],
        'ext': ['Props/C13_ext', 'Props/C13s_ext'], 'needs_ext': ['ExtI/Scan', 'Check/C13', 'Check/C13s'],
        'corr': ['Corr/Set1', 'Corr/Set2'], 'needs_corr': ['Syn/Set1', 'Syn/Set2', 'ExtI/Scan'],
        'info': ['Spec/ReadmeCheck'],
        'cex_ext': ['Cex/C13_ext', 'Cex/C13s_ext'], 'cex_syn': ['Cex/C13_syn', 'Cex/C13s_syn'],
        'replay_kind': 'c13',
        'bonus': ['Props/E2E_full', 'Props/SetIndep'],
    },
    'C07': {
        'lib': LIB + ['Check/Scan', 'Check/C07'],
        'syn': ['Props/C07_set1', 'Props/C07_set2'], 'needs_syn': ['Syn/Set1', 'Syn/Set2', 'Check/C07'],
        'ext': ['Props/C07_set1_ext', 'Props/C07_set2_ext'], 'needs_ext': ['ExtI/Scan', 'Check/C07'],
        'corr': ['Corr/Set1', 'Corr/Set2'], 'needs_corr': ['Syn/Set1', 'Syn/Set2', 'ExtI/Scan'],
        'cex_ext': ['Cex/C07_set1_ext', 'Cex/C07_set2_ext'], 'cex_syn': ['Cex/C07_set1_syn', 'Cex/C07_set2_syn'],
        'replay_kind': 'bytesN',
    },
    'C01': scan_prop('C01', 2, ['Check/C01']),
    'C02': scan_prop('C02', 1, ['Check/C02']),
    'C06': dict(ps2_prop('C06', ['Check/C06']), replay_kind='bits', extra=c06_extra, extra_always=True),
    'C05': {
        'lib': LIB + ['Spec/Frame', 'Check/C05'],
        'syn': ['Props/C05'], 'needs_syn': ['Syn/Ps2', 'Check/C05'],
        'ext': ['Props/C05_ext'], 'needs_ext': ['ExtI/Ps2', 'Check/C05'],
        'corr': ['Corr/Ps2Words'], 'needs_corr': ['Syn/Ps2', 'ExtI/Ps2'],
        'cex_ext': 'Cex/C05_ext', 'cex_syn': 'Cex/C05_syn',
        'replay_kind': 'word',
    },
}


# concrete cases shown in the evidence (`samples`): the real crate's answer, obtained on this run
SAMPLES = {
    'C01': [['replay', 'bytes', 'set2', '224,240,108'], ['replay', 'bytes', 'set2', '225,20,119'], ['replay', 'bytes', 'set2', '170,0,2']],
    'C02': [['replay', 'bytes', 'set1', '224,71,224,199'], ['replay', 'bytes', 'set1', '30,158,112']],
    'C03': [['replay', 'layout', 'Uk105Key', 'Key3', '1', 'Ignore'], ['replay', 'layout', 'De105Key', 'Q', '128', 'Ignore'], ['replay', 'layout', 'DVP104Key', 'OemPlus', '0', 'Ignore']],
    'C04': [['replay', 'evstep', '256', 'Ignore', 'NumpadLock', 'Down'], ['replay', 'evstep', '16', 'Ignore', 'CapsLock', 'Down']],
    'C05': [['replay', 'word', '1026'], ['replay', 'word', '1027'], ['replay', 'word', '2']],
    'C06': [['replay', 'bits', '01000000001'], ['replay', 'bits', '0111c01000000001'], ['replay', 'bits', '0100000000001000000001']],
    'C07': [['replay', 'bytes', 'set2', '224,2,28'], ['replay', 'bytes', 'set1', '225,0,30']],
    'C08': [['findpanic']],
    'C09': [['replay', 'layout', 'De105Key', 'Y', '4', 'MapLettersToUnicode'], ['replay', 'layout', 'Azerty', 'Q', '8', 'MapLettersToUnicode']],
    'C10': [['replay', 'layout', 'De105Key', 'Oem1', '32', 'Ignore'], ['replay', 'layout', 'Azerty', 'M', '32', 'Ignore']],
    'C11': [['replay', 'layout', 'Uk105Key', 'Key4', '68', 'Ignore'], ['replay', 'layout', 'Uk105Key', 'Key4', '128', 'Ignore']],
    'C12': [['replay', 'layout', 'De105Key', 'Key7', '128', 'Ignore'], ['replay', 'layout', 'DVP104Key', 'OemPlus', '0', 'Ignore']],
    'C13': [['replay', 'bytes', 'set2', '224,108'], ['replay', 'bytes', 'set1', '224,71']],
    'C14': [['replay', 'evstep', '4', 'MapLettersToUnicode', 'A', 'Down'], ['replay', 'evstep', '4', 'MapLettersToUnicode', 'A', 'Up']],
    'C15': [['replay', 'layout', 'No105Key', 'NumpadPeriod', '16', 'Ignore'], ['replay', 'layout', 'Us104Key', 'Numpad7', '0', 'Ignore']],
    'C16': [['replay', 'layout', 'Ref.Jis109Key', 'Oem10', '0', 'Ignore'], ['replay', 'layout', 'Any.Azerty', 'F5', '511', 'MapLettersToUnicode']],
    'C17': [['replay', 'layout', 'Ref.FiSe105Key', 'Oem1', '0', 'Ignore'], ['replay', 'layout', 'FiSe105Key', 'Oem1', '0', 'Ignore']],
    'C18': [['replay', 'kbd', 'set2;scan=224;mods=16;mode=0;bits=0101;word:0'], ['replay', 'kbd', 'set2;scan=240;mods=16;mode=0;bits=;clear']],
    'C19': [['replay', 'bytes', 'set2', '224,17,224,240,17'], ['replay', 'bytes', 'set1', '29,157']],
    'C20': [],
}
