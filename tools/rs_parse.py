"""Lexer and parser for the Rust subset used by pc-keyboard (see DESIGN.md section 3.1).

Anything outside the subset raises Unsupported with a file:line location; the translator
never guesses.  The AST is made of plain Node objects (kind + attributes)."""
import re


class Unsupported(Exception):
    def __init__(self, msg, file=None, line=None):
        self.msg, self.file, self.line = msg, file, line
        Exception.__init__(self, "%s:%s: %s" % (file, line, msg))


class Node:
    def __init__(self, kind, line=None, **kw):
        self.kind = kind
        self.line = line
        self.__dict__.update(kw)

    def __repr__(self):
        d = {k: v for k, v in self.__dict__.items() if k not in ('kind', 'line')}
        return "%s(%s)" % (self.kind, ", ".join("%s=%r" % kv for kv in d.items()))


# --------------------------------------------------------------------------------------
# Lexer

PUNCT = ['<<=', '>>=', '...', '..=', '::', '->', '=>', '==', '!=', '<=', '>=', '&&', '||', '<<', '>>',
         '+=', '-=', '*=', '/=', '%=', '|=', '&=', '^=', '..',
         '{', '}', '(', ')', '[', ']', '<', '>', ',', ';', ':', '=', '+', '-', '*', '/', '%', '&', '|',
         '^', '!', '.', '#', '?', '@', '$', '~']

ESC = {'n': 10, 'r': 13, 't': 9, '\\': 92, '0': 0, "'": 39, '"': 34}
INT_SUFFIX = ['u8', 'u16', 'u32', 'u64', 'u128', 'usize', 'i8', 'i16', 'i32', 'i64', 'i128', 'isize']


class Tok:
    __slots__ = ('kind', 'val', 'line', 'suffix')

    def __init__(self, kind, val, line, suffix=None):
        self.kind, self.val, self.line, self.suffix = kind, val, line, suffix

    def __repr__(self):
        return "%s:%r@%s" % (self.kind, self.val, self.line)


def lex(src, fname):
    toks = []
    i, n, line = 0, len(src), 1

    def err(msg):
        raise Unsupported(msg, fname, line)

    def read_escape(i):
        # src[i] == '\\'; returns (code point, next index)
        c = src[i + 1]
        if c in ESC:
            return ESC[c], i + 2
        if c == 'x':
            return int(src[i + 2:i + 4], 16), i + 4
        if c == 'u':
            j = src.index('}', i)
            return int(src[i + 3:j].replace('_', ''), 16), j + 1
        err("unknown escape \\%s" % c)

    while i < n:
        c = src[i]
        if c == '\n':
            line += 1
            i += 1
        elif c in ' \t\r':
            i += 1
        elif src.startswith('//', i):
            j = src.find('\n', i)
            i = n if j < 0 else j
        elif src.startswith('/*', i):
            depth, i = 1, i + 2
            while depth and i < n:
                if src.startswith('/*', i):
                    depth += 1
                    i += 2
                elif src.startswith('*/', i):
                    depth -= 1
                    i += 2
                else:
                    if src[i] == '\n':
                        line += 1
                    i += 1
        elif c.isalpha() or c == '_':
            j = i
            while j < n and (src[j].isalnum() or src[j] == '_'):
                j += 1
            word = src[i:j]
            if word in ('b',) and j < n and src[j] == "'":
                # byte literal b'x'
                if src[j + 1] == '\\':
                    v, k = read_escape(j + 1)
                else:
                    v, k = ord(src[j + 1]), j + 2
                if src[k] != "'":
                    err("bad byte literal")
                toks.append(Tok('int', v, line, 'u8'))
                i = k + 1
            elif word in ('r', 'br', 'b') and j < n and src[j] in '"#':
                err("raw/byte string literals are not supported")
            else:
                toks.append(Tok('ident', word, line))
                i = j
        elif c.isdigit():
            m = re.compile(r'0x[0-9a-fA-F_]+|0b[01_]+|0o[0-7_]+|[0-9][0-9_]*').match(src, i)
            text = m.group(0).replace('_', '')
            j = m.end()
            if j < n and src[j] == '.' and j + 1 < n and src[j + 1].isdigit():
                err("float literals are not supported")
            val = int(text, 0) if text[:2] in ('0x', '0b', '0o') else int(text)
            suffix = None
            for s in INT_SUFFIX:
                if src.startswith(s, j) and not (j + len(s) < n and (src[j + len(s)].isalnum() or src[j + len(s)] == '_')):
                    suffix = s
                    j += len(s)
                    break
            toks.append(Tok('int', val, line, suffix))
            i = j
        elif c == "'":
            if src[i + 1] == '\\':
                v, k = read_escape(i + 1)
                if src[k] != "'":
                    err("bad char literal")
                toks.append(Tok('char', v, line))
                i = k + 1
            elif i + 2 < n and src[i + 2] == "'":
                toks.append(Tok('char', ord(src[i + 1]), line))
                i += 3
            else:
                j = i + 1
                while j < n and (src[j].isalnum() or src[j] == '_'):
                    j += 1
                toks.append(Tok('lifetime', src[i:j], line))
                i = j
        elif c == '"':
            j = i + 1
            buf = []
            while src[j] != '"':
                if src[j] == '\\':
                    if src[j + 1] == '\n':
                        j += 2
                        line += 1
                        while src[j] in ' \t\n\r':
                            if src[j] == '\n':
                                line += 1
                            j += 1
                        continue
                    v, j = read_escape(j)
                    buf.append(chr(v))
                else:
                    if src[j] == '\n':
                        line += 1
                    buf.append(src[j])
                    j += 1
            toks.append(Tok('str', ''.join(buf), line))
            i = j + 1
        else:
            for p in PUNCT:
                if src.startswith(p, i):
                    toks.append(Tok('punct', p, line))
                    i += len(p)
                    break
            else:
                err("unexpected character %r" % c)
    toks.append(Tok('eof', None, line))
    return toks


# --------------------------------------------------------------------------------------
# Parser

BINOP_PREC = [
    ('||',), ('&&',), ('==', '!=', '<', '>', '<=', '>='), ('|',), ('^',), ('&',), ('<<', '>>'),
    ('+', '-'), ('*', '/', '%'),
]
ASSIGN_OPS = ['=', '+=', '-=', '*=', '/=', '%=', '|=', '&=', '^=', '<<=', '>>=']
PANIC_MACROS = ('unimplemented', 'unreachable', 'panic', 'todo')


class Parser:
    def __init__(self, toks, fname):
        self.toks, self.p, self.fname = toks, 0, fname

    # -- helpers
    def err(self, msg, tok=None):
        tok = tok or self.toks[self.p]
        raise Unsupported(msg, self.fname, tok.line)

    @property
    def t(self):
        return self.toks[self.p]

    def peek(self, k=1):
        return self.toks[min(self.p + k, len(self.toks) - 1)]

    def at(self, val, kind='punct'):
        t = self.t
        return t.kind == kind and t.val == val

    def at_kw(self, w):
        return self.at(w, 'ident')

    def eat(self, val, kind='punct'):
        if self.at(val, kind):
            self.p += 1
            return True
        return False

    def eat_kw(self, w):
        return self.eat(w, 'ident')

    def expect(self, val, kind='punct'):
        if not self.eat(val, kind):
            self.err("expected %r, found %r" % (val, self.t.val))

    def ident(self):
        if self.t.kind != 'ident':
            self.err("expected identifier, found %r" % (self.t.val,))
        v = self.t.val
        self.p += 1
        return v

    def split_shr(self):
        # turn a `>>` token into two `>` (closing nested generics)
        t = self.t
        if t.kind == 'punct' and t.val in ('>>', '>=', '>>='):
            rest = t.val[1:]
            self.toks[self.p:self.p + 1] = [Tok('punct', '>', t.line), Tok('punct', rest, t.line)]

    # -- attributes
    def attrs(self):
        """Parse outer/inner attributes; returns list of (name, raw token text list)."""
        out = []
        while self.at('#'):
            self.p += 1
            inner = self.eat('!')
            self.expect('[')
            depth, toks = 1, []
            while depth:
                t = self.t
                if t.kind == 'eof':
                    self.err("unterminated attribute")
                if t.kind == 'punct' and t.val == '[':
                    depth += 1
                elif t.kind == 'punct' and t.val == ']':
                    depth -= 1
                    if depth == 0:
                        self.p += 1
                        break
                toks.append(t)
                self.p += 1
            text = ' '.join(str(t.val) for t in toks)
            out.append(Node('attr', toks[0].line if toks else self.t.line, inner=inner, text=text))
        return out

    @staticmethod
    def is_cfg_test(attrs):
        return any(re.match(r'cfg \( test \)$', a.text) for a in attrs)

    # -- items
    def file(self):
        items = []
        self.skipped = []   # (line, message): top-level items outside the subset, skipped
        self.attrs()  # inner attributes of the file
        while self.t.kind != 'eof':
            start = self.p
            try:
                it = self.item()
            except Unsupported as u:
                # only this item is outside the subset: skip it and keep going
                if self.p == start and self.toks[start].kind == 'eof':
                    raise
                self.p = start
                self.attrs()
                self.visibility()
                line = self.t.line
                try:
                    self.skip_balanced_item()
                except Unsupported:
                    raise u
                self.skipped.append((line, str(u)))
                continue
            if it is not None:
                items.append(it)
        return items

    def visibility(self):
        if self.eat_kw('pub'):
            if self.at('('):
                self.p += 1
                while not self.eat(')'):
                    self.p += 1
            return True
        return False

    def skip_balanced_item(self):
        # skip to the end of an item: either `;` at depth 0 or a balanced `{...}`
        depth = 0
        while True:
            t = self.t
            if t.kind == 'eof':
                self.err("unterminated item")
            self.p += 1
            if t.kind == 'punct':
                if t.val in '{([':
                    depth += 1
                elif t.val in '})]':
                    depth -= 1
                    if depth == 0 and t.val == '}':
                        return
                elif t.val == ';' and depth == 0:
                    return

    def item(self):
        attrs = self.attrs()
        line = self.t.line
        if self.is_cfg_test(attrs):
            self.visibility()
            self.skip_balanced_item()
            return None
        pub = self.visibility()
        if self.eat_kw('mod'):
            name = self.ident()
            if self.eat(';'):
                return Node('mod', line, name=name, items=None, pub=pub, attrs=attrs)
            self.expect('{')
            items = []
            self.attrs()
            while not self.eat('}'):
                it = self.item()
                if it is not None:
                    items.append(it)
            return Node('mod', line, name=name, items=items, pub=pub, attrs=attrs)
        if self.eat_kw('use'):
            tree = self.use_tree()
            self.expect(';')
            return Node('use', line, tree=tree, pub=pub)
        if self.eat_kw('struct'):
            return self.struct(line, pub, attrs)
        if self.eat_kw('enum'):
            return self.enum(line, pub, attrs)
        if self.at_kw('const') and self.peek().kind == 'ident' and self.peek().val not in ('fn', 'unsafe'):
            self.p += 1
            name = self.ident()
            self.expect(':')
            ty = self.type()
            self.expect('=')
            e = self.expr()
            self.expect(';')
            return Node('const', line, name=name, ty=ty, value=e, pub=pub)
        if self.at_kw('static'):
            self.err("static items are not supported")
        if self.at_kw('unsafe') and self.peek().val in ('impl', 'trait'):
            self.err("unsafe impl/trait is not supported")
        if self.eat_kw('impl'):
            return self.impl(line, attrs)
        if self.eat_kw('trait'):
            return self.trait(line, pub)
        if self.at_kw('fn') or self.at_kw('const') or self.at_kw('unsafe') or self.at_kw('extern') or self.at_kw('async'):
            return self.fn(line, pub, attrs)
        if self.eat_kw('type'):
            self.err("type aliases are not supported")
        if self.t.kind == 'ident' and self.peek().val == '!':
            self.err("item macro %s! is not supported" % self.t.val)
        self.err("unsupported item starting with %r" % (self.t.val,))

    def use_tree(self):
        # returns list of (path list, alias)
        out = []

        def go(prefix):
            if self.eat('{'):
                while not self.eat('}'):
                    go(prefix)
                    if not self.eat(','):
                        self.expect('}')
                        break
                return
            if self.eat('*'):
                out.append((prefix + ['*'], None))
                return
            seg = self.ident()
            if self.eat('::'):
                go(prefix + [seg])
            else:
                alias = None
                if self.eat_kw('as'):
                    alias = self.ident()
                out.append((prefix + [seg], alias))
        go([])
        return out

    def generics(self):
        """`<A, B: Bound, 'a>` -> list of (name, [bounds])."""
        params = []
        if self.eat('<'):
            while True:
                self.split_shr()
                if self.eat('>'):
                    break
                if self.t.kind == 'lifetime':
                    self.p += 1
                elif self.eat_kw('const'):
                    self.err("const generics are not supported")
                else:
                    name = self.ident()
                    bounds = []
                    if self.eat(':'):
                        bounds = self.bounds()
                    if self.eat('='):
                        self.type()
                    params.append((name, bounds))
                self.split_shr()
                if not self.eat(','):
                    self.expect('>')
                    break
        return params

    def bounds(self):
        bs = []
        while True:
            if self.t.kind == 'lifetime':
                self.p += 1
            elif self.eat('?'):
                self.type()
            else:
                bs.append(self.type())
            if not self.eat('+'):
                break
        return bs

    def where(self, params):
        if self.eat_kw('where'):
            while not (self.at('{') or self.at(';') or self.t.kind == 'eof'):
                ty = self.type()
                self.expect(':')
                bs = self.bounds()
                if ty.kind == 'tpath' and len(ty.segs) == 1 and not ty.args:
                    for i, (n, b) in enumerate(params):
                        if n == ty.segs[0]:
                            params[i] = (n, b + bs)
                            break
                    else:
                        self.err("where clause on a non-parameter type")
                else:
                    self.err("where clause on a non-parameter type")
                if not self.eat(','):
                    break
        return params

    def struct(self, line, pub, attrs):
        name = self.ident()
        params = self.generics()
        if self.eat(';'):
            return Node('struct', line, name=name, params=params, fields=[], unit=True, tuple=False, pub=pub, attrs=attrs)
        if self.at('('):
            self.p += 1
            fields = []
            while not self.eat(')'):
                self.attrs()
                self.visibility()
                fields.append(('_%d' % len(fields), self.type()))
                if not self.eat(','):
                    self.expect(')')
                    break
            params = self.where(params)
            self.expect(';')
            return Node('struct', line, name=name, params=params, fields=fields, unit=False, tuple=True, pub=pub, attrs=attrs)
        params = self.where(params)
        self.expect('{')
        fields = []
        while not self.eat('}'):
            self.attrs()
            self.visibility()
            fname = self.ident()
            self.expect(':')
            fields.append((fname, self.type()))
            if not self.eat(','):
                self.expect('}')
                break
        return Node('struct', line, name=name, params=params, fields=fields, unit=False, tuple=False, pub=pub, attrs=attrs)

    def enum(self, line, pub, attrs):
        name = self.ident()
        params = self.generics()
        params = self.where(params)
        self.expect('{')
        variants = []
        while not self.eat('}'):
            self.attrs()
            vline = self.t.line
            vname = self.ident()
            payload = []
            if self.eat('('):
                while not self.eat(')'):
                    payload.append(self.type())
                    if not self.eat(','):
                        self.expect(')')
                        break
            elif self.at('{'):
                self.err("struct-like enum variants are not supported")
            disc = None
            if self.eat('='):
                disc = self.expr()
            variants.append(Node('variant', vline, name=vname, payload=payload, disc=disc))
            if not self.eat(','):
                self.expect('}')
                break
        return Node('enum', line, name=name, params=params, variants=variants, pub=pub, attrs=attrs)

    def impl(self, line, attrs):
        params = self.generics()
        neg = self.eat('!')
        first = self.type()
        trait = None
        ty = first
        if self.eat_kw('for'):
            trait = first
            ty = self.type()
        if neg:
            self.err("negative impls are not supported")
        params = self.where(params)
        self.expect('{')
        fns = []
        consts = []
        while not self.eat('}'):
            a = self.attrs()
            fl = self.t.line
            if self.is_cfg_test(a):
                self.visibility()
                self.skip_balanced_item()
                continue
            p = self.visibility()
            if self.at_kw('type'):
                self.err("associated types are not supported")
            if self.at_kw('const') and self.peek().val not in ('fn', 'unsafe'):
                self.p += 1
                cname = self.ident()
                self.expect(':')
                cty = self.type()
                self.expect('=')
                cval = self.expr()
                self.expect(';')
                consts.append(Node('const', fl, name=cname, ty=cty, value=cval, pub=p))
                continue
            fns.append(self.fn(fl, p, a))
        return Node('impl', line, params=params, trait=trait, ty=ty, fns=fns, attrs=attrs, consts=consts)

    def trait(self, line, pub):
        name = self.ident()
        params = self.generics()
        if self.eat(':'):
            self.bounds()
        params = self.where(params)
        self.expect('{')
        fns = []
        while not self.eat('}'):
            a = self.attrs()
            fl = self.t.line
            fns.append(self.fn(fl, True, a))
        return Node('trait', line, name=name, params=params, fns=fns, pub=pub)

    def fn(self, line, pub, attrs):
        is_const = False
        while True:
            if self.eat_kw('const'):
                is_const = True
            elif self.at_kw('unsafe') or self.at_kw('extern') or self.at_kw('async'):
                self.err("%s fn is not supported" % self.t.val)
            else:
                break
        self.expect('fn', 'ident')
        name = self.ident()
        params = self.generics()
        self.expect('(')
        self_kind = None
        args = []
        while not self.eat(')'):
            self.attrs()
            if self.at('&') and (self.peek().val == 'self' or (self.peek().val == 'mut' and self.peek(2).val == 'self')
                                 or (self.peek().kind == 'lifetime')):
                self.p += 1
                if self.t.kind == 'lifetime':
                    self.p += 1
                if self.eat_kw('mut'):
                    self_kind = 'mut'
                else:
                    self_kind = 'ref'
                self.expect('self', 'ident')
            elif self.at_kw('self'):
                self.p += 1
                self_kind = 'value'
                if self.eat(':'):
                    self.err("typed self receivers are not supported")
            elif self.at_kw('mut') and self.peek().val == 'self':
                self.err("`mut self` receivers are not supported")
            else:
                pat = self.pattern()
                self.expect(':')
                ty = self.type()
                args.append((pat, ty))
            if not self.eat(','):
                self.expect(')')
                break
        ret = None
        if self.eat('->'):
            ret = self.type()
        params = self.where(params)
        body = None
        rejected = None
        if not self.eat(';'):
            start = self.p
            try:
                body = self.block()
            except Unsupported as u:
                # keep going: only this function is outside the subset
                self.p = start
                self.skip_balanced_item()
                rejected = str(u)
        return Node('fn', line, name=name, params=params, self_kind=self_kind, args=args, ret=ret, body=body,
                    is_const=is_const, pub=pub, attrs=attrs, rejected=rejected)

    # -- types
    def type(self):
        line = self.t.line
        if self.eat('&'):
            if self.t.kind == 'lifetime':
                self.p += 1
            mut = self.eat_kw('mut')
            return Node('tref', line, mut=mut, inner=self.type())
        if self.at('&&'):
            self.toks[self.p:self.p + 1] = [Tok('punct', '&', line), Tok('punct', '&', line)]
            return self.type()
        if self.eat('('):
            elems = []
            while not self.eat(')'):
                elems.append(self.type())
                if not self.eat(','):
                    self.expect(')')
                    if len(elems) == 1:
                        return elems[0]
                    break
            return Node('ttuple', line, elems=elems)
        if self.at('['):
            self.p += 1
            elem = self.type()
            if self.eat(';'):
                n = self.expr()
                self.expect(']')
                return Node('tarray', line, elem=elem, len=n)
            self.expect(']')
            return Node('tslice', line, elem=elem)
        if self.at('*'):
            self.err("raw pointer types are not supported")
        if self.at_kw('fn'):
            self.p += 1
            self.expect('(')
            fargs = []
            while not self.eat(')'):
                fargs.append(self.type())
                if not self.eat(','):
                    self.expect(')')
                    break
            fret = None
            if self.eat('->'):
                fret = self.type()
            return Node('tfn', line, args=fargs, ret=fret)
        if self.at_kw('dyn') or self.at_kw('impl'):
            # parsed, so that the item around it survives; rejected as a TYPE by the translator (conv_type)
            self.p += 1
            segs = []
            while True:
                if self.t.kind == 'lifetime':
                    self.p += 1
                else:
                    self.eat('?')
                    b = self.type()
                    segs = segs or list(getattr(b, 'segs', ['?']))
                if not self.eat('+'):
                    break
            return Node('tdyn', line, segs=['dyn'] + segs, args=[])
        if self.eat('!'):
            return Node('tnever', line)
        segs = []
        args = []
        self.eat('::')
        while True:
            segs.append(self.ident())
            if self.at('<'):
                self.p += 1
                args = []
                while True:
                    self.split_shr()
                    if self.eat('>'):
                        break
                    if self.t.kind == 'lifetime':
                        self.p += 1
                    else:
                        args.append(self.type())
                    self.split_shr()
                    if not self.eat(','):
                        self.expect('>')
                        break
            if not self.eat('::'):
                break
        return Node('tpath', line, segs=segs, args=args)

    # -- patterns
    def pattern(self):
        line = self.t.line
        first = self.pattern_no_alt()
        if self.at('|'):
            alts = [first]
            while self.eat('|'):
                alts.append(self.pattern_no_alt())
            return Node('por', line, alts=alts)
        return first

    def pattern_no_alt(self):
        line = self.t.line
        t = self.t
        if self.eat('&'):
            self.eat_kw('mut')
            return self.pattern_no_alt()
        if self.eat('('):
            elems = []
            while not self.eat(')'):
                elems.append(self.pattern())
                if not self.eat(','):
                    self.expect(')')
                    if len(elems) == 1:
                        return elems[0]
                    break
            return Node('ptuple', line, elems=elems)
        if t.kind in ('int', 'char') or (self.at('-') and self.peek().kind == 'int'):
            if self.at('-'):
                self.err("negative literal patterns are not supported")
            self.p += 1
            lo = Node('plit', line, value=t.val, is_char=(t.kind == 'char'), suffix=t.suffix)
            if self.eat('..='):
                hi = self.t
                if hi.kind in ('int', 'char'):
                    self.p += 1
                    return Node('prange', line, lo=lo, hi=Node('plit', line, value=hi.val, is_char=(hi.kind == 'char'), suffix=hi.suffix))
                hip = self.path_segs()
                return Node('prange', line, lo=lo, hi=Node('ppath', line, segs=hip))
            if self.at('..') or self.at('...'):
                self.err("only inclusive `..=` range patterns are supported")
            return lo
        if self.at('['):
            self.err("slice patterns are not supported")
        if t.kind == 'ident':
            if t.val == '_':
                self.p += 1
                return Node('pwild', line)
            if t.val in ('true', 'false'):
                self.p += 1
                return Node('pbool', line, value=(t.val == 'true'))
            if t.val in ('ref', 'mut'):
                self.p += 1
                if t.val == 'mut':
                    self.err("`mut` bindings in patterns are not supported")
                return self.pattern_no_alt()
            segs = self.path_segs()
            if self.at('('):
                self.p += 1
                elems = []
                while not self.eat(')'):
                    if self.at('..'):
                        self.err("`..` in tuple-struct patterns is not supported")
                    elems.append(self.pattern())
                    if not self.eat(','):
                        self.expect(')')
                        break
                return Node('ptstruct', line, segs=segs, elems=elems)
            if self.at('{'):
                self.p += 1
                fields, rest = [], False
                while not self.eat('}'):
                    if self.eat('..'):
                        rest = True
                        self.expect('}')
                        break
                    fl = self.t.line
                    fname = self.ident()
                    if self.eat(':'):
                        fp = self.pattern()
                    else:
                        fp = Node('ppath', fl, segs=[fname])
                    fields.append((fname, fp))
                    if not self.eat(','):
                        self.expect('}')
                        break
                return Node('pstruct', line, segs=segs, fields=fields, rest=rest)
            if self.eat('..='):
                hi = self.t
                lo = Node('ppath', line, segs=segs)
                if hi.kind in ('int', 'char'):
                    self.p += 1
                    return Node('prange', line, lo=lo, hi=Node('plit', line, value=hi.val, is_char=(hi.kind == 'char'), suffix=hi.suffix))
                return Node('prange', line, lo=lo, hi=Node('ppath', line, segs=self.path_segs()))
            if self.at('@'):
                self.err("`@` patterns are not supported")
            return Node('ppath', line, segs=segs)
        self.err("unsupported pattern starting with %r" % (t.val,))

    def path_segs(self):
        segs = []
        self.eat('::')
        while True:
            segs.append(self.ident())
            if self.at('::') and self.peek().kind == 'ident':
                self.p += 1
            elif self.at('::') and self.peek().val == '<':
                self.err("turbofish paths are not supported")
            else:
                break
        return segs

    # -- blocks and statements
    def block(self):
        line = self.t.line
        self.expect('{')
        stmts = []
        tail = None
        while not self.eat('}'):
            if self.eat(';'):
                continue
            a = self.attrs()
            sl = self.t.line
            if self.is_cfg_test(a):
                self.err("cfg(test) on statements is not supported")
            if self.at_kw('let'):
                self.p += 1
                is_mut = False
                if self.at_kw('mut') and self.peek().kind == 'ident' and self.peek(2).val in (':', '=', ';'):
                    self.p += 1
                    is_mut = True
                pat = self.pattern()
                ty = None
                if self.eat(':'):
                    ty = self.type()
                if not self.eat('='):
                    self.err("`let` without initialiser is not supported")
                e = self.expr()
                if self.at_kw('else'):
                    self.err("let-else is not supported")
                self.expect(';')
                stmts.append(Node('let', sl, pat=pat, ty=ty, value=e, is_mut=is_mut))
                continue
            if self.t.kind == 'ident' and self.t.val == 'use':
                # a `use` in a body only brings names into scope; paths are resolved by their last segments
                while not self.eat(';'):
                    if self.t.kind == 'eof':
                        self.err("unterminated `use`")
                    self.p += 1
                continue
            if self.t.kind == 'ident' and self.t.val in ('fn', 'struct', 'enum', 'impl', 'use', 'const', 'static', 'mod', 'trait', 'type') \
                    and not (self.t.val == 'const' and self.peek().val == '{'):
                self.err("items inside function bodies are not supported")
            if self.t.kind == 'ident' and self.t.val in ('while', 'loop', 'for'):
                self.err("loops are not supported")
            e = self.expr_stmt()
            if self.eat(';'):
                stmts.append(Node('expr', sl, e=e))
            elif self.at('}'):
                tail = e
            elif e.kind in ('if', 'match', 'block', 'iflet'):
                stmts.append(Node('expr', sl, e=e))
            else:
                self.err("expected `;` or `}` after expression")
        return Node('block', line, stmts=stmts, tail=tail)

    def expr_stmt(self):
        # block-like expressions end a statement without `;`
        if self.at_kw('if') or self.at_kw('match') or self.at('{'):
            e = self.primary_blocklike()
            if self.at('.') or self.at('?'):
                e = self.postfix(e)
                return self.binary_rest(e, 0)
            return e
        return self.expr()

    # -- expressions
    def expr(self, nostruct=False):
        old = getattr(self, 'nostruct', False)
        self.nostruct = nostruct
        try:
            return self.assign()
        finally:
            self.nostruct = old

    def assign(self):
        line = self.t.line
        lhs = self.binary(0)
        if self.t.kind == 'punct' and self.t.val in ASSIGN_OPS:
            op = self.t.val
            self.p += 1
            rhs = self.assign()
            return Node('assign', line, op=op, lhs=lhs, rhs=rhs)
        if self.at('..') or self.at('..='):
            incl = self.at('..=')
            line = self.t.line
            self.p += 1
            hi = self.binary(0)
            return Node('range', line, lo=lhs, hi=hi, inclusive=incl)
        return lhs

    def binary(self, level):
        if level == len(BINOP_PREC):
            return self.cast()
        lhs = self.binary(level + 1)
        return self.binary_level_rest(lhs, level)

    def binary_level_rest(self, lhs, level):
        while self.t.kind == 'punct' and self.t.val in BINOP_PREC[level]:
            op = self.t.val
            line = self.t.line
            self.p += 1
            rhs = self.binary(level + 1)
            lhs = Node('binop', line, op=op, lhs=lhs, rhs=rhs)
        return lhs

    def binary_rest(self, lhs, level):
        # continue parsing binary operators after an already-parsed operand
        for lv in range(len(BINOP_PREC) - 1, level - 1, -1):
            lhs = self.binary_level_rest(lhs, lv)
        return lhs

    def cast(self):
        e = self.unary()
        while self.at_kw('as'):
            line = self.t.line
            self.p += 1
            ty = self.type()
            e = Node('cast', line, e=e, ty=ty)
        return e

    def unary(self):
        line = self.t.line
        if self.eat('!'):
            return Node('unop', line, op='!', e=self.unary())
        if self.eat('-'):
            return Node('unop', line, op='-', e=self.unary())
        if self.eat('*'):
            return Node('deref', line, e=self.unary())
        if self.at('&&'):
            self.toks[self.p:self.p + 1] = [Tok('punct', '&', line), Tok('punct', '&', line)]
        if self.eat('&'):
            mut = self.eat_kw('mut')
            return Node('ref', line, mut=mut, e=self.unary())
        return self.postfix(self.primary())

    def postfix(self, e):
        while True:
            line = self.t.line
            if self.eat('?'):
                e = Node('try', line, e=e)
            elif self.at('.'):
                self.p += 1
                if self.t.kind == 'int':
                    idx = self.t.val
                    self.p += 1
                    e = Node('field', line, e=e, name='_%d' % idx)
                    continue
                if self.at_kw('await'):
                    self.err("await is not supported")
                name = self.ident()
                if self.at('::'):
                    self.err("turbofish method calls are not supported")
                if self.at('('):
                    args = self.call_args()
                    e = Node('mcall', line, recv=e, name=name, args=args)
                else:
                    e = Node('field', line, e=e, name=name)
            elif self.at('('):
                args = self.call_args()
                e = Node('call', line, fn=e, args=args)
            elif self.at('['):
                self.p += 1
                ix = self.expr()
                self.expect(']')
                e = Node('index', line, e=e, idx=ix)
            else:
                return e

    def call_args(self):
        self.expect('(')
        args = []
        old = getattr(self, 'nostruct', False)
        self.nostruct = False
        while not self.eat(')'):
            args.append(self.assign())
            if not self.eat(','):
                self.expect(')')
                break
        self.nostruct = old
        return args

    def primary_blocklike(self):
        line = self.t.line
        if self.at('{'):
            return self.block()
        if self.eat_kw('if'):
            if self.eat_kw('let'):
                pat = self.pattern()
                self.expect('=')
                scrut = self.expr(nostruct=True)
                if self.at('&&'):
                    self.err("let chains are not supported")
                then = self.block()
                els = None
                if self.eat_kw('else'):
                    els = self.primary_blocklike() if (self.at_kw('if') or self.at('{')) else self.err("expected block after else")
                return Node('iflet', line, pat=pat, scrut=scrut, then=then, els=els)
            cond = self.expr(nostruct=True)
            then = self.block()
            els = None
            if self.eat_kw('else'):
                els = self.primary_blocklike() if (self.at_kw('if') or self.at('{')) else self.err("expected block after else")
            return Node('if', line, cond=cond, then=then, els=els)
        if self.eat_kw('match'):
            scrut = self.expr(nostruct=True)
            self.expect('{')
            arms = []
            while not self.eat('}'):
                self.attrs()
                al = self.t.line
                self.eat('|')
                pat = self.pattern()
                guard = None
                if self.eat_kw('if'):
                    guard = self.expr()
                self.expect('=>')
                body = self.expr_stmt()
                arms.append(Node('arm', al, pat=pat, guard=guard, body=body))
                if not self.eat(','):
                    if body.kind in ('block', 'if', 'match', 'iflet') and not self.at('}'):
                        continue
                    self.expect('}')
                    break
            return Node('match', line, scrut=scrut, arms=arms)
        self.err("expected block-like expression")

    def primary(self):
        t = self.t
        line = t.line
        if t.kind == 'int':
            self.p += 1
            return Node('int', line, value=t.val, suffix=t.suffix)
        if t.kind == 'char':
            self.p += 1
            return Node('char', line, value=t.val)
        if t.kind == 'str':
            self.err("string literals are not supported in expressions")
        if self.at('('):
            self.p += 1
            old = getattr(self, 'nostruct', False)
            self.nostruct = False
            elems = []
            single = False
            while not self.eat(')'):
                elems.append(self.assign())
                if not self.eat(','):
                    self.expect(')')
                    single = len(elems) == 1
                    break
            self.nostruct = old
            if single:
                return Node('paren', line, e=elems[0])
            return Node('tuple', line, elems=elems)
        if self.at('{') or self.at_kw('if') or self.at_kw('match'):
            return self.primary_blocklike()
        if self.at('|') or self.at('||') or self.at_kw('move'):
            self.err("closures are not supported")
        if self.at('['):
            self.p += 1
            elems = []
            while not self.eat(']'):
                elems.append(self.expr())
                if self.at(';'):
                    self.err("repeat array expressions are not supported")
                if not self.eat(','):
                    self.expect(']')
                    break
            return Node('array', line, elems=elems)
        if t.kind == 'ident':
            if t.val in ('true', 'false'):
                self.p += 1
                return Node('bool', line, value=(t.val == 'true'))
            if t.val == 'return':
                self.p += 1
                e = None
                if not (self.at(';') or self.at('}') or self.at(',') or self.at(')')):
                    e = self.assign()
                return Node('return', line, e=e)
            if t.val in ('while', 'loop', 'for'):
                self.err("loops are not supported")
            if t.val in ('break', 'continue'):
                self.err("break/continue are not supported")
            if t.val == 'unsafe':
                self.err("unsafe blocks are not supported")
            if t.val in ('async', 'await', 'yield', 'box', 'static', 'let'):
                self.err("`%s` is not supported here" % t.val)
            if self.peek().val == '!' and self.peek(2).val in ('(', '[', '{') and self.peek().kind == 'punct':
                return self.macro()
            segs = self.path_segs()
            if self.at('{') and not getattr(self, 'nostruct', False) and self.looks_like_struct_lit():
                self.p += 1
                fields = []
                base = None
                while not self.eat('}'):
                    if self.eat('..'):
                        base = self.assign()
                        self.expect('}')
                        break
                    fl = self.t.line
                    fname = self.ident()
                    if self.eat(':'):
                        old = getattr(self, 'nostruct', False)
                        self.nostruct = False
                        fe = self.assign()
                        self.nostruct = old
                    else:
                        fe = Node('path', fl, segs=[fname])
                    fields.append((fname, fe))
                    if not self.eat(','):
                        self.expect('}')
                        break
                if base is not None:
                    self.err("struct update syntax `..base` is not supported")
                return Node('structlit', line, segs=segs, fields=fields)
            return Node('path', line, segs=segs)
        self.err("unsupported expression starting with %r" % (t.val,))

    def looks_like_struct_lit(self):
        # `Path {` followed by `}` or `ident :` or `ident ,` or `ident }`
        a, b = self.peek(1), self.peek(2)
        if a.kind == 'punct' and a.val == '}':
            return True
        if a.kind == 'ident' and b.kind == 'punct' and b.val in (':', ',', '}'):
            return True
        return False

    def macro(self):
        line = self.t.line
        name = self.ident()
        self.expect('!')
        open_ = self.t.val
        close = {'(': ')', '[': ']', '{': '}'}[open_]
        if name in PANIC_MACROS:
            self.p += 1
            depth = 1
            while depth:
                t = self.t
                if t.kind == 'eof':
                    self.err("unterminated macro")
                if t.kind == 'punct' and t.val in '([{':
                    depth += 1
                elif t.kind == 'punct' and t.val in ')]}':
                    depth -= 1
                self.p += 1
            return Node('panic', line, name=name)
        if name in ('assert', 'debug_assert'):
            self.p += 1
            cond = self.expr()
            depth = 1
            while depth:
                t = self.t
                if t.kind == 'eof':
                    self.err("unterminated macro")
                if t.kind == 'punct' and t.val in '([{':
                    depth += 1
                elif t.kind == 'punct' and t.val in ')]}':
                    depth -= 1
                self.p += 1
            return Node('assert', line, cond=cond, name=name)
        if name in ('assert_eq', 'assert_ne', 'debug_assert_eq', 'debug_assert_ne'):
            self.p += 1
            a = self.expr()
            self.expect(',')
            b = self.expr()
            depth = 1
            while depth:
                t = self.t
                if t.kind == 'eof':
                    self.err("unterminated macro")
                if t.kind == 'punct' and t.val in '([{':
                    depth += 1
                elif t.kind == 'punct' and t.val in ')]}':
                    depth -= 1
                self.p += 1
            op = '==' if name.endswith('_eq') else '!='
            return Node('assert', line, cond=Node('binop', line, op=op, lhs=a, rhs=b), name=name)
        if name == 'matches':
            self.p += 1
            scrut = self.expr()
            self.expect(',')
            pat = self.pattern()
            guard = None
            if self.eat_kw('if'):
                guard = self.expr()
            self.eat(',')
            self.expect(close)
            return Node('matches', line, scrut=scrut, pat=pat, guard=guard)
        self.err("macro %s! is not supported" % name)


def parse_file(path):
    src = open(path, encoding='utf-8').read()
    toks = lex(src, path)
    p = Parser(toks, path)
    items = p.file()
    parse_file.skipped = getattr(parse_file, 'skipped', {})
    parse_file.skipped[path] = p.skipped
    return items
