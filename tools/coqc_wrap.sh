#!/bin/sh
# coqc wrapper used by the generated Makefile: time limit per file, and the output of every
# compilation (Print Assumptions, Eval, errors) is kept next to the source as <file>.out
for a in "$@"; do f="$a"; done
out="${f%.v}.out"
timeout 600 coqc "$@" > "$out" 2>&1
rc=$?
[ $rc -eq 124 ] && echo "Error: coqc timed out after 600 s on $f" >> "$out"
# a failed compilation must not leave an older .vo behind (it would be taken for a proof of the new source)
[ $rc -ne 0 ] && rm -f "${f%.v}.vo" "${f%.v}.vos" "${f%.v}.vok" "${f%.v}.glob"
cat "$out"
exit $rc
