"""Correspondence for the composed Keyboard: the generated Keyboard_* functions (Coq, vm_compute) and the
real crate run the same generated operation sequences; results and final states must agree."""
import os, re, json, sys
import seqgen, cexparse

FIELDS = ['lshift', 'rshift', 'lctrl', 'rctrl', 'numlock', 'capslock', 'lalt', 'ralt', 'rctrl2']


def parse_rust_line(line, en):
    res, fin = line.rsplit(' | ', 1)
    results = [[int(x) for x in r.split()] for r in res.split(' ; ')] if res.strip() else []
    if fin.strip() == '0':
        return results, [0]
    reg = int(re.search(r'register: (\d+)', fin).group(1))
    nb = int(re.search(r'num_bits: (\d+)', fin).group(1))
    st = re.search(r'scancode_set: \w+ \{ state: (\w+)', fin).group(1)
    bits = 0
    # the decoder's own modifier record (the first one printed), not copies held in other fields
    mm = re.search(r'modifiers: Modifiers \{([^}]*)\}', fin)
    mods = mm.group(1) if mm else fin
    for i, f in enumerate(FIELDS):
        if re.search(r'\b%s: true' % f, mods):
            bits |= 1 << i
    hc = re.search(r'handle_ctrl: (\w+)', fin).group(1)
    return results, [reg, nb, en['DecodeState'].index(st), bits, en['HandleControl'].index(hc)]


def run(tier, seed, cov, notes, ctx):
    en = json.load(open(os.path.join(ctx.COQ, 'Gen', 'gen.json')))['enums']
    nseq, length, shards = (160, 120, 8) if tier != 'thorough' else (3200, 300, 32)
    seqs, stats = seqgen.generate(seed, nseq, length, len(en['KeyCode']))
    d = os.path.join(ctx.BUILD, 'seq')
    os.makedirs(d, exist_ok=True)
    txt = os.path.join(d, 'seqs.txt')
    open(txt, 'w').write(seqgen.to_text(seqs))
    rc, out, dt = ctx.sh([ctx.HARNESS, 'seq', txt], timeout=1200)
    if rc != 0:
        return None, "harness seq failed: " + out[-500:]
    try:
        rust = [parse_rust_line(l, en) for l in out.strip().split('\n')]
    except (AttributeError, ValueError, IndexError) as e:
        return None, "cannot read the crate's final state rendering: %r" % e
    # Coq side, sharded
    cdir = os.path.join(ctx.COQ, 'SeqCases')
    os.makedirs(cdir, exist_ok=True)
    per = (nseq + shards - 1) // shards
    procs = []
    import subprocess
    for k in range(shards):
        part = seqs[k * per:(k + 1) * per]
        if not part:
            continue
        # indices are global
        src = seqgen.to_coq(part).replace('Definition s', 'Definition q%d_s' % k).replace(' s%d).' % 0, ' s0).')
        # rename uniformly
        src = re.sub(r'\bs(\d+)\b', lambda m: 'c%d_%s' % (k, m.group(1)), seqgen.to_coq(part))
        src = re.sub(r'\("seq"%string, (\d+),', lambda m: '("seq"%%string, %d,' % (k * per + int(m.group(1))), src)
        f = os.path.join(cdir, 'Cases_%d.v' % k)
        open(f, 'w').write(src)
        procs.append((k, subprocess.Popen('ulimit -s unlimited 2>/dev/null; timeout 1500 coqc -q -Q . PK SeqCases/Cases_%d.v' % k, shell=True, cwd=ctx.COQ,
                                          stdout=subprocess.PIPE, stderr=subprocess.STDOUT)))
    coq = {}
    for k, p in procs:
        o = p.communicate()[0].decode('utf-8', 'replace')
        if p.returncode != 0:
            return None, "coqc failed on the sequence cases: " + o[-600:]
        for m in re.finditer(r'=\s*\("seq"(?:%string)?,\s*(\d+)(?:%N)?,\s*(.*?)\)\s*\n\s*:\s', o, re.S):
            term = cexparse.parse_term(m.group(2))
            coq[int(m.group(1))] = term
    nops = 0
    mism = []
    for i, (setn, layout, mode, ops) in enumerate(seqs):
        if i not in coq:
            return None, "no Coq result for sequence %d" % i
        cres, cfin = coq[i][0], coq[i][1]
        rres, rfin = rust[i]
        nops += len(ops)
        if cres != rres or cfin != rfin:
            j = 0
            while j < min(len(cres), len(rres)) and cres[j] == rres[j]:
                j += 1
            mism.append({'sequence': i, 'set': setn, 'layout': en['AnyLayout'][layout], 'mode': en['HandleControl'][mode],
                         'first_difference_at_op': j, 'ops_prefix': seqgen.to_text([(setn, layout, mode, ops[:j + 1])]).strip(),
                         'model_result': cres[j] if j < len(cres) else cfin, 'crate_result': rres[j] if j < len(rres) else rfin})
    cov['sequences'] = nseq
    cov['sequence_operations'] = nops
    cov['sequence_input_distribution'] = stats
    cov['traces_validated_against_impl'] = cov.get('traces_validated_against_impl', 0) + nseq
    return mism, None
