"""Parse the output of Cex/*.v files and turn witnesses into replayable records."""
import re, json, os


def parse_term(text):
    """Parse Coq-printed nested lists/tuples of numbers into Python lists."""
    text = re.sub(r'%\w+', '', text)
    toks = re.findall(r'\d+|[\[\]();,]', text)
    pos = [0]

    def go():
        t = toks[pos[0]]
        if t in '[(':
            close = ']' if t == '[' else ')'
            pos[0] += 1
            items = []
            while toks[pos[0]] != close:
                if toks[pos[0]] in ';,':
                    pos[0] += 1
                    continue
                items.append(go())
            pos[0] += 1
            return items
        pos[0] += 1
        return int(t)
    return go()


def parse_cex_output(out):
    """`Eval vm_compute in ("cex", l)` with l : list (list N * list N * list N)."""
    m = re.search(r'=\s*\("cex"(?:%string)?,\s*(.*?)\)\s*\n\s*:\s', out, re.S)
    if not m:
        return None
    body = m.group(1).strip()
    if body in ('[]', 'nil'):
        return []
    term = parse_term(body)
    ws = []
    for item in term:
        # ((input, expected), actual) printed as (input, expected, actual)
        flat = item
        while len(flat) == 2 and isinstance(flat[0], list) and flat[0] and isinstance(flat[0][0], list):
            flat = flat[0] + [flat[1]]
        ws.append({'input': flat[0], 'expected': flat[1] if len(flat) > 1 else [], 'actual': flat[2] if len(flat) > 2 else []})
    return ws


def witness_key(w):
    return ','.join(str(x) for x in w['input'])


def enums(ctx):
    return json.load(open(os.path.join(ctx.COQ, 'Gen', 'gen.json')))['enums']


def tok_dk(code, en):
    if not code or code[0] == 0:
        return 'P'
    if code[0] == 1:
        return 'u%d' % code[1]
    return 'r' + en['KeyCode'][code[1]]


def tok_sc(code, en):
    if not code or code[0] == 0:
        return 'P'
    if code[0] == 1:
        return 'none'
    if code[0] == 2:
        return 'ev:%s:%s' % (en['KeyCode'][code[1]], en['KeyState'][code[2]])
    return 'err:' + en['Error'][code[1]]


def tok_ps(code, en):
    if not code or code[0] == 0:
        return 'P'
    if code[0] == 1:
        return 'none'
    if code[0] == 2:
        return 'byte:%d' % code[1]
    return 'err:' + en['Error'][code[1]]


def describe(pid, cfg, w, ctx):
    """Human-readable input, expected/actual tokens and the harness command that replays it."""
    en = enums(ctx)
    kind = w.get('kind') or cfg.get('replay_kind')
    inp = w['input']
    rep = {}
    if kind == 'word':
        rep['input_text'] = "add_word(0x%04x)" % inp[0]
        rep['harness_cmd'] = ['replay', 'word', str(inp[0])]
        rep['expected'] = tok_ps(w['expected'], en) if w['expected'] != [9] else 'a value, not a panic'
        rep['model_actual'] = tok_ps(w['actual'], en)
    elif kind == 'bits':
        s = ''.join({0: '0', 1: '1', 2: 'c'}[x] for x in inp)
        rep['input_text'] = "bit ops " + s
        rep['harness_cmd'] = ['replay', 'bits', s]
        rep['expected'] = tok_ps(w['expected'], en) if w['expected'] != [9] else 'a value, not a panic'
        rep['model_actual'] = tok_ps(w['actual'], en)
    elif kind in ('bytes1', 'bytes2'):
        rep['input_text'] = "bytes " + ' '.join('%02x' % b for b in inp)
        rep['harness_cmd'] = ['replay', 'bytes', 'set1' if kind == 'bytes1' else 'set2', ','.join(str(b) for b in inp)]
        rep['expected'] = tok_sc(w['expected'], en)
        rep['model_actual'] = tok_sc(w['actual'], en)
    elif kind == 'bytesN':
        setn, bs = inp[0], inp[1:]
        rep['input_text'] = "set %d bytes %s" % (setn, ' '.join('%02x' % b for b in bs))
        rep['harness_cmd'] = ['replay', 'bytes', 'set%d' % setn, ','.join(str(b) for b in bs)]
        rep['expected'] = tok_sc(w['expected'], en) if w['expected'] != [9] else 'a value, not a panic'
        rep['model_actual'] = tok_sc(w['actual'], en)
    elif kind in ('two_seq', 'c13'):
        # two byte streams separated by 999; first element: set (two_seq) or direction (c13)
        head, rest = inp[0], inp[1:]
        k = rest.index(999)
        a, b = rest[:k], rest[k + 1:]
        if kind == 'c13':
            sa, sb = ('set2', 'set1')
            first, second = (a, b) if head == 0 else (b, a)
            fs, ss = (sa, sb) if head == 0 else (sb, sa)
        else:
            fs = ss = 'set%d' % head
            first, second = a, b
        rep['input_text'] = "%s bytes %s versus %s bytes %s" % (fs, ' '.join('%02x' % x for x in first), ss, ' '.join('%02x' % x for x in second))
        rep['harness_cmd'] = ['replay', 'bytes', ss, ','.join(str(x) for x in second)]
        rep['first_result'] = tok_sc(w['expected'], en)
        rep['model_actual'] = tok_sc(w['actual'], en)
        rep['expected'] = "the counterpart of " + tok_sc(w['expected'], en)
        if kind == 'c13' and os.path.exists(ctx.HARNESS):
            # the other stream too: the deviation may sit on either side
            rc1, out1, dt1 = ctx.sh([ctx.HARNESS, 'replay', 'bytes', fs, ','.join(str(x) for x in first)])
            rep['first_crate_actual'] = out1.strip()
            rep['first_harness_cmd'] = ['replay', 'bytes', fs, ','.join(str(x) for x in first)]
    elif kind == 'evstep':
        bits, mode = inp[0], inp[1]
        def tok_step(code):
            if not code or code == [0]:
                return 'P'
            if len(code) == 2:
                return '%d %d -' % (code[0], code[1])
            nb, nm, r = code[0], code[1], code[2:]
            if r[0] == 1:
                t = 'none'
            elif r[0] == 2:
                t = 'raw:' + en['KeyCode'][r[1]]
            elif r[0] == 3:
                t = 'cons:%s:%d:%d' % (en['KeyCode'][r[1]], r[2], r[3])
            else:
                t = 'uni:%d' % r[1]
            return '%d %d %s' % (nb, nm, t)
        if inp[2] == 999:
            rep['input_text'] = "state mods=%03x mode=%s; set_ctrl_handling(%s)" % (bits, en['HandleControl'][mode], en['HandleControl'][inp[3]])
            rep['harness_cmd'] = ['replay', 'evstep', str(bits), en['HandleControl'][mode], 'mode', en['HandleControl'][inp[3]]]
        else:
            rep['input_text'] = "state mods=%03x mode=%s; event %s %s" % (bits, en['HandleControl'][mode], en['KeyCode'][inp[2]], en['KeyState'][inp[3]])
            rep['harness_cmd'] = ['replay', 'evstep', str(bits), en['HandleControl'][mode], en['KeyCode'][inp[2]], en['KeyState'][inp[3]]]
        rep['expected'] = tok_step(w['expected'])
        rep['model_actual'] = tok_step(w['actual'])
    elif kind == 'layout':
        form = {0: '', 1: 'Any.', 2: 'Ref.'}[inp[0]] if len(inp) > 4 else ''
        if len(inp) > 4:
            inp = inp[1:]
        lay, key, mods, mode = inp[0], inp[1], inp[2], inp[3]
        rep['input_text'] = "%s%s.map_keycode(%s, mods=%03x, %s)" % (form, en['AnyLayout'][lay], en['KeyCode'][key], mods, en['HandleControl'][mode])
        rep['harness_cmd'] = ['replay', 'layout', form + en['AnyLayout'][lay], en['KeyCode'][key], str(mods), en['HandleControl'][mode]]
        rep['expected'] = (tok_dk(w['expected'], en) if w['expected'] and w['expected'] != [9] else ('a value, not a panic' if w['expected'] == [9] else None))
        rep['model_actual'] = tok_dk(w['actual'], en)
    else:
        rep['input_text'] = str(inp)
    if rep.get('harness_cmd') and os.path.exists(ctx.HARNESS):
        rc, out, dt = ctx.sh([ctx.HARNESS] + rep['harness_cmd'])
        rep['crate_actual'] = out.strip()
        got = out.strip()
        ma = rep.get('model_actual')
        if got.startswith('UNREACHED'):
            # the harness could not put the crate into the witness' state by its canonical path
            ma = None
            rep['note'] = 'start state not reached by the canonical construction; not confirmed either way'
        rep['confirmed_on_crate'] = (got.split(' ')[-1] == ma or got.endswith(' ' + ma) or got == ma) if ma else None
        if rep.get('first_crate_actual') is not None and rep['confirmed_on_crate']:
            g1 = rep['first_crate_actual']
            rep['confirmed_on_crate'] = (g1.split(' ')[-1] == rep['first_result'] or g1 == rep['first_result'])
    return rep
