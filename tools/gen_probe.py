#!/usr/bin/env python3
"""Generate the C20 probe crate: one const / static item per constructor x layout x scancode set, const
evaluation of the getters and predicates, and Send + Sync instantiations.  rustc is the judge."""
import json, os, sys

def main(gen_json, outdir, repo='/repo'):
    en = json.load(open(gen_json))['enums']
    lays = en['AnyLayout']
    os.makedirs(os.path.join(outdir, 'src'), exist_ok=True)
    open(os.path.join(outdir, 'Cargo.toml'), 'w').write('''[package]
name = "pckb-probe"
version = "0.1.0"
edition = "2021"

[dependencies]
pc-keyboard = { path = "%s" }

[workspace]
''' % repo)
    os.makedirs(os.path.join(outdir, '.cargo'), exist_ok=True)
    open(os.path.join(outdir, '.cargo', 'config.toml'), 'w').write('[net]\noffline = true\n')
    items = []   # (id, code)
    items.append(('const Ps2Decoder::new', 'pub const P0: Ps2Decoder = Ps2Decoder::new();'))
    items.append(('static Ps2Decoder::new', 'pub static P1: Ps2Decoder = Ps2Decoder::new();'))
    for s in ('ScancodeSet1', 'ScancodeSet2'):
        items.append(('const %s::new' % s, 'pub const C_%s: %s = %s::new();' % (s.upper(), s, s)))
        items.append(('static %s::new' % s, 'pub static S_%s: %s = %s::new();' % (s.upper(), s, s)))
    items.append(('const KeyEvent::new', 'pub const KE: KeyEvent = KeyEvent::new(KeyCode::A, KeyState::Down);'))
    items.append(('static KeyEvent::new', 'pub static KES: KeyEvent = KeyEvent::new(KeyCode::PauseBreak, KeyState::SingleShot);'))
    items.append(('const Modifiers', 'pub const M0: Modifiers = Modifiers { lshift: true, rshift: false, lctrl: true, rctrl: false, numlock: true, capslock: true, lalt: true, ralt: false, rctrl2: false };'))
    for p in ('is_shifted', 'is_ctrl', 'is_alt', 'is_altgr', 'is_caps'):
        items.append(('const Modifiers::%s' % p, 'pub const B_%s: bool = M0.%s();' % (p.upper(), p)))
    objs = [(l, l, l) for l in lays] + [('Any' + l, 'AnyLayout', 'AnyLayout::%s(%s)' % (l, l)) for l in lays]
    for tag, ty, val in objs:
        items.append(('const EventDecoder::new<%s>' % tag, 'pub const ED_%s: EventDecoder<%s> = EventDecoder::new(%s, HandleControl::Ignore);' % (tag.upper(), ty, val)))
        items.append(('static EventDecoder::new<%s>' % tag, 'pub static EDS_%s: EventDecoder<%s> = EventDecoder::new(%s, HandleControl::MapLettersToUnicode);' % (tag.upper(), ty, val)))
        items.append(('const EventDecoder::get_ctrl_handling<%s>' % tag, 'pub const EDH_%s: HandleControl = ED_%s.get_ctrl_handling();' % (tag.upper(), tag.upper())))
        for s in ('ScancodeSet1', 'ScancodeSet2'):
            n = '%s_%s' % (tag.upper(), s[-1])
            items.append(('const Keyboard::new<%s,%s>' % (tag, s), 'pub const K_%s: Keyboard<%s, %s> = Keyboard::new(%s::new(), %s, HandleControl::Ignore);' % (n, ty, s, s, val)))
            items.append(('static Keyboard::new<%s,%s>' % (tag, s), 'pub static KS_%s: Keyboard<%s, %s> = Keyboard::new(%s::new(), %s, HandleControl::MapLettersToUnicode);' % (n, ty, s, s, val)))
            items.append(('const Keyboard::get_ctrl_handling<%s,%s>' % (tag, s), 'pub const KH_%s: HandleControl = K_%s.get_ctrl_handling();' % (n, n)))
            items.append(('const Keyboard::get_modifiers<%s,%s>' % (tag, s), 'pub const KM_%s: bool = K_%s.get_modifiers().numlock;' % (n, n)))
            items.append(('Send+Sync Keyboard<%s,%s>' % (tag, s), 'const _: () = need::<Keyboard<%s, %s>>();' % (ty, s)))
        items.append(('Send+Sync EventDecoder<%s>' % tag, 'const _: () = need::<EventDecoder<%s>>();' % ty))
        items.append(('Send+Sync %s' % ty, 'const _: () = need::<%s>();' % ty))
    for t in ('Ps2Decoder', 'ScancodeSet1', 'ScancodeSet2', 'Modifiers', 'KeyEvent', 'DecodedKey', 'KeyCode', 'KeyState', 'HandleControl', 'Error'):
        items.append(('Send+Sync %s' % t, 'const _: () = need::<%s>();' % t))
    # the Mutex pattern of the property text
    items.append(('static Mutex<Keyboard>', 'pub static SHARED: Cell0<Keyboard<Us104Key, ScancodeSet2>> = Cell0::new(Keyboard::new(ScancodeSet2::new(), Us104Key, HandleControl::Ignore));'))
    src = ['#![no_std]', '#![allow(dead_code)]', 'use pc_keyboard::layouts::*;', 'use pc_keyboard::*;',
           'const fn need<T: Send + Sync>() {}',
           '/// a minimal spin-lock-like wrapper: Sync exactly when T is Send, like a Mutex',
           'pub struct Cell0<T>(core::cell::UnsafeCell<T>);', 'unsafe impl<T: Send> Sync for Cell0<T> {}',
           'impl<T> Cell0<T> { pub const fn new(t: T) -> Self { Cell0(core::cell::UnsafeCell::new(t)) } }']
    index = {}
    for ident, code in items:
        index[len(src) + 1] = ident
        src.append(code)
    open(os.path.join(outdir, 'src', 'lib.rs'), 'w').write('\n'.join(src) + '\n')
    json.dump({'items': len(items), 'lines': index}, open(os.path.join(outdir, 'index.json'), 'w'))
    return len(items)

if __name__ == '__main__':
    print(main(sys.argv[1], sys.argv[2]))
