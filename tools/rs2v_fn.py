"""rs2v function translator: one Rust fn -> one Gallina Definition in the ctl monad."""
from rs_parse import Unsupported, Node
from rs2v_core import *


class Scope:
    def __init__(self, parent=None):
        self.steps = []      # (var, M, mods)
        self.diverged = False
        self.mods = False
        self.locals = {}
        self.muts = set()        # mutable locals declared in this scope
        self.parent = parent

    def lookup(self, name):
        s = self
        while s is not None:
            if name in s.locals:
                return s.locals[name]
            s = s.parent
        return None


def assigned_locals(node, acc):
    """Names of plain identifiers assigned anywhere inside an AST node (syntactic over-approximation)."""
    if isinstance(node, Node):
        if node.kind == 'assign' and node.lhs.kind == 'path' and len(node.lhs.segs) == 1:
            acc.add(node.lhs.segs[0])
        for v in node.__dict__.values():
            assigned_locals(v, acc)
    elif isinstance(node, (list, tuple)):
        for v in node:
            assigned_locals(v, acc)
    return acc


def tuple_proj(t, i, n):
    """i-th component of the n-tuple t (Coq tuples are left-nested pairs)."""
    if n == 1:
        return t
    r = t
    for _ in range(n - 1 - i):
        r = "(fst %s)" % r
    return r if i == 0 else "(snd %s)" % r


def is_simple(atom):
    return atom.replace('_', 'a').isalnum()


class FnTr:
    def __init__(self, crate, fi):
        self.c = crate
        self.fi = fi
        self.path = fi.file
        self.used = {}
        self.scope = Scope()
        self.tparams = [n for n, _ in fi.bounds]
        self.self_var = None
        self.mut_names = {}
        self.mut_self = fi.self_kind == 'mut'

    def err(self, msg, node):
        raise Unsupported(msg, self.path, getattr(node, 'line', None))

    # -- names
    def fresh(self, base):
        k = self.used.get(base, 0)
        self.used[base] = k + 1
        return base if k == 0 else "%s_%d" % (base, k)

    def bind_local(self, rust_name, ty, atom=None):
        if atom is None:
            atom = self.fresh('v_' + rust_name)
        self.scope.locals[rust_name] = (atom, ty)
        return atom

    # -- mutable locals
    def is_mut_local(self, name):
        sc = self.scope
        while sc is not None:
            if name in sc.locals:
                return name in sc.muts or self.mut_names.get(name, False)
            sc = sc.parent
        return False

    def carried(self, *nodes):
        """Mutable locals visible here that the given AST nodes may assign (in a fixed order)."""
        acc = set()
        for n in nodes:
            assigned_locals(n, acc)
        return sorted(x for x in acc if self.scope.lookup(x) is not None and self.mut_names.get(x))

    def rebind_carried(self, names, tup):
        for i, x in enumerate(names):
            _, ty = self.scope.lookup(x)
            v = self.fresh('v_' + x)
            self.emit(v, "cret %s" % tuple_proj(tup, i + 1, len(names) + 1))
            self.scope.locals[x] = (v, ty)

    # -- steps
    def emit(self, var, m, mods=False):
        self.scope.steps.append((var, m))
        if mods:
            self.scope.mods = True
            self.refresh_self()

    def emit_val(self, m, base='t', mods=False):
        v = self.fresh(base)
        self.emit(v, m, mods)
        return v

    def refresh_self(self):
        if self.mut_self:
            v = self.fresh('v_self')
            self.scope.steps.append((v, 'cget'))
            self.self_var = v

    def sub(self, f):
        """Run f() in a child scope; returns (scope, result of f)."""
        old = self.scope
        old_self = self.self_var
        sc = Scope(old)
        self.scope = sc
        try:
            r = f()
        finally:
            self.scope = old
            self.self_var = old_self
        if sc.mods:
            old.mods = True
        return sc, r

    @staticmethod
    def seq(sc, final):
        """Monadic term for a scope's steps followed by `final` (an M)."""
        steps = list(sc.steps)
        # `x <- M ;; cret x`  ==>  M
        if steps and isinstance(final, tuple) and final[0] == 'ret' and final[1] == steps[-1][0] and steps[-1][0] != '_':
            final = steps[-1][1]
            steps = steps[:-1]
        if not steps:
            return final
        return ('seq', steps, final)

    # -- types
    def ty(self, t):
        return self.c.conv_type(t, self.tparams, self.path, self.fi.self_ty)

    def eqb_term(self, t, node):
        t, _ = strip_ref(t)
        k = t[0]
        if k in ('int', 'char'):
            return 'N.eqb'
        if k == 'bool':
            return 'Bool.eqb'
        if k == 'unit':
            return 'unit_eqb'
        if k == 'adt':
            if t[1] == 'Option':
                return '(option_eqb %s)' % self.eqb_term(t[2][0], node)
            if t[1] == 'Result':
                return '(Result_eqb %s %s)' % (self.eqb_term(t[2][0], node), self.eqb_term(t[2][1], node))
            if t[2]:
                self.err("`==` on a generic type is not supported", node)
            return t[1] + '_eqb'
        if k == 'tuple' and len(t[1]) == 2:
            return '(prod_eqb %s %s)' % (self.eqb_term(t[1][0], node), self.eqb_term(t[1][1], node))
        self.err("`==` on this type is not supported", node)

    def struct_fields(self, t, node):
        """[(field, type)] of struct type t with generics substituted."""
        t, _ = strip_ref(t)
        if t[0] != 'adt' or t[1] not in self.c.structs:
            self.err("field access on a non-struct value", node)
        st = self.c.structs[t[1]]
        tps = [n for n, _ in st.params]
        s = dict(zip(tps, t[2]))
        return [(fn, subst(self.c.conv_type(fty, tps, st.file), s)) for fn, fty in st.fields]

    # -- places rooted at self
    def self_place(self, e):
        """If e is `self(.field)*` (possibly behind &mut / parens) return the field list."""
        while e.kind in ('ref', 'paren', 'deref'):
            e = e.e
        if e.kind == 'path' and e.segs == ['self']:
            return []
        if e.kind == 'field':
            p = self.self_place(e.e)
            if p is not None:
                return p + [e.name]
        return None

    def setter(self, fields, value_atom, node):
        """Term for self with self.fields := value."""
        t = self.fi.self_ty
        accs = []  # (type name, field)
        cur = self.self_var
        chain = []
        for f in fields:
            base, _ = strip_ref(t)
            fl = dict(self.struct_fields(base, node))
            if f not in fl:
                self.err("no field `%s`" % f, node)
            chain.append((base[1], f, cur))
            cur = "(%s_%s %s)" % (base[1], f, cur)
            t = fl[f]
        term = value_atom
        for (tn, f, holder) in reversed(chain):
            term = "(%s_set_%s %s %s)" % (tn, f, term, holder)
        return term, t

    # -- dictionaries
    def dict_params(self, bounds):
        """[(coq name, trait, method node, param)] for generic bounds."""
        out = []
        for p, traits in bounds:
            for tr in traits:
                for f in self.c.traits[tr].fns:
                    out.append(("%s_%s" % (p, f.name), tr, f, p))
        return out

    def resolve_dict(self, t, trait, mname, node):
        base, n = strip_ref(t)
        if base[0] == 'param' and n == 0:
            for p, traits in self.fi.bounds:
                if p == base[1] and trait in traits:
                    return "%s_%s" % (p, mname)
            self.err("type parameter %s lacks bound %s" % (base[1], trait), node)
        if base[0] == 'adt':
            sty = self.c.trait_impl(trait, t)
            if sty is not None:
                for fi in self.c.methods.get((base[1], n, mname), []):
                    if fi.trait == trait:
                        if fi.bounds:
                            self.err("generic trait impls as dictionaries are not supported", node)
                        self.fi.deps.add(fi.coq)
                        return fi.coq
        self.err("no impl of %s for the inferred type" % trait, node)

    # -- expressions ---------------------------------------------------------------
    def lit(self, e, expected):
        if e.suffix:
            return str(e.value), ('int', INT_BITS[e.suffix]) if e.suffix in INT_BITS else self.err("signed integers are not supported", e)
        if expected is not None:
            ex, _ = strip_ref(expected)
            if ex[0] == 'int':
                if e.value >= 2 ** ex[1]:
                    self.err("literal out of range", e)
                return str(e.value), ex
        return str(e.value), ('intlit',)

    def is_bare_lit(self, e):
        while e.kind == 'paren':
            e = e.e
        return e.kind == 'int' and not e.suffix

    def pair(self, a, b, expected=None):
        """Translate two operands that must have the same type."""
        if self.is_bare_lit(a) and not self.is_bare_lit(b):
            bb, tb = self.expr(b, expected)
            aa, ta = self.expr(a, tb)
        else:
            aa, ta = self.expr(a, expected)
            bb, tb = self.expr(b, ta if ta[0] != 'intlit' else expected)
        if ta[0] == 'intlit' and tb[0] != 'intlit':
            ta = tb
        if ta[0] == 'intlit':
            self.err("cannot infer the type of an integer literal", a)
        return aa, bb, strip_ref(ta)[0], strip_ref(tb)[0]

    def expr(self, e, expected=None):
        """Returns (atom, type); may emit steps into the current scope."""
        m = getattr(self, 'e_' + e.kind, None)
        if m is None:
            self.err("unsupported expression kind `%s`" % e.kind, e)
        return m(e, expected)

    def e_int(self, e, expected):
        return self.lit(e, expected)

    def e_char(self, e, expected):
        return str(e.value), T_CHAR

    def e_bool(self, e, expected):
        return ('true' if e.value else 'false'), T_BOOL

    def e_paren(self, e, expected):
        return self.expr(e.e, expected)

    def e_ref(self, e, expected):
        ex = expected[1] if expected is not None and expected[0] == 'ref' else expected
        a, t = self.expr(e.e, ex)
        return a, ('ref', t)

    def e_deref(self, e, expected):
        a, t = self.expr(e.e, expected)
        return a, (t[1] if t[0] == 'ref' else t)

    def e_tuple(self, e, expected):
        if not e.elems:
            return 'tt', T_UNIT
        ex = strip_ref(expected)[0] if expected is not None else None
        parts = []
        for i, x in enumerate(e.elems):
            xe = ex[1][i] if ex is not None and ex[0] == 'tuple' and len(ex[1]) == len(e.elems) else None
            parts.append(self.expr(x, xe))
        return '(' + ', '.join(p[0] for p in parts) + ')', ('tuple', tuple(p[1] for p in parts))

    def e_path(self, e, expected):
        segs = e.segs
        if len(segs) == 1:
            n = segs[0]
            if n == 'self':
                if self.fi.self_kind is None:
                    self.err("`self` in a function without receiver", e)
                t = self.fi.self_ty if self.fi.self_kind == 'value' else ('ref', self.fi.self_ty)
                return self.self_var, t
            loc = self.scope.lookup(n)
            if loc is not None:
                return loc
            if n == 'None':
                return 'None', ('adt', 'Option', (self.opt_arg(expected),))
        n = segs[-1]
        if n in self.c.consts and (len(segs) == 1 or segs[-2] in ('crate', 'super', 'self')):
            ty, val, _ = self.c.consts[n]
            return n, ty
        if len(segs) >= 2:
            owner_ = segs[-2]
            if owner_ == 'Self' and self.fi.self_ty is not None:
                owner_ = strip_ref(self.fi.self_ty)[0][1]
            if (owner_ + '_' + n) in self.c.consts:
                ty, val, _ = self.c.consts[owner_ + '_' + n]
                return owner_ + '_' + n, ty
            if (owner_, n) in self.c.BUILTIN_CONSTS:
                bits = {'u8': 8, 'u16': 16, 'u32': 32, 'u64': 64, 'usize': 64}[owner_]
                return str(self.c.BUILTIN_CONSTS[(owner_, n)]), (('int', 32) if n == 'BITS' else ('int', bits))
        if n in self.c.structs and self.c.structs[n].unit:
            return n + '_mk', ('adt', n, ())
        if len(segs) >= 2:
            en = segs[-2]
            if en == 'Self' and self.fi.self_ty is not None:
                en = strip_ref(self.fi.self_ty)[0][1]
            if en in self.c.enums:
                for v in self.c.enums[en].variants:
                    if v.name == n:
                        if v.payload:
                            self.err("enum constructor used as a function value", e)
                        args = ()
                        if self.c.enums[en].params:
                            ex = strip_ref(expected)[0] if expected is not None else None
                            args = ex[2] if ex is not None and ex[0] == 'adt' and ex[1] == en else tuple(T_UNKNOWN for _ in self.c.enums[en].params)
                        return "%s_%s" % (en, n), ('adt', en, args)
                self.err("no variant `%s` in enum %s" % (n, en), e)
            # a function used as a value (fn pointer): plain functions only
            if en in self.c.structs or en in self.c.enums:
                cands = [fi for (tn, nr, mn), lst in self.c.methods.items() if tn == en and mn == n for fi in lst]
                if len(cands) == 1:
                    return self.fn_value(cands[0], e)
        if len(segs) == 1 and n in self.c.free_fns:
            return self.fn_value(self.c.free_fns[n], e)
        self.err("cannot resolve path `%s`" % '::'.join(segs), e)

    def fn_value(self, fi, node):
        if fi.self_kind is not None or fi.bounds or not fi.args:
            self.err("only non-generic functions without receiver can be used as values", node)
        self.fi.deps.add(fi.coq)
        return fi.coq, ('fnptr', tuple(t for _, t in fi.args), fi.ret)

    def e_index(self, e, expected):
        a, t = self.expr(e.e)
        base, _ = strip_ref(t)
        if base[0] != 'array':
            self.err("indexing something that is not an array", e)
        i, ti = self.expr(e.idx, ('int', 64))
        if strip_ref(ti)[0][0] not in ('int', 'intlit'):
            self.err("array index is not an integer", e)
        v = self.emit_val("call (arr_index %s %s)" % (a, i))
        return v, base[1]

    def e_array(self, e, expected):
        ex = strip_ref(expected)[0] if expected is not None else None
        et = ex[1] if ex is not None and ex[0] == 'array' else None
        atoms = []
        for x in e.elems:
            a, t = self.expr(x, et)
            if et is None or et[0] in ('unknown', 'intlit'):
                et = t
            atoms.append(a)
        if et is None or et[0] == 'intlit':
            self.err("cannot infer the element type of an array expression", e)
        return "[%s]" % '; '.join(atoms), ('array', et, len(atoms))

    def opt_arg(self, expected):
        if expected is not None:
            ex, _ = strip_ref(expected)
            if ex[0] == 'adt' and ex[1] == 'Option':
                return ex[2][0]
        return T_UNKNOWN

    def e_field(self, e, expected):
        a, t = self.expr(e.e)
        base, _ = strip_ref(t)
        if base[0] == 'tuple' and e.name.startswith('_'):
            i = int(e.name[1:])
            if len(base[1]) == 2:
                return "(%s %s)" % (('fst', 'snd')[i], a), base[1][i]
            self.err("projection from tuples of arity > 2 is not supported", e)
        fl = dict(self.struct_fields(base, e))
        if e.name not in fl:
            self.err("no field `%s`" % e.name, e)
        return "(%s_%s %s)" % (base[1], e.name, a), fl[e.name]

    def e_structlit(self, e, expected):
        n = e.segs[-1]
        if n == 'Self' and self.fi.self_ty is not None:
            n = strip_ref(self.fi.self_ty)[0][1]
        if n not in self.c.structs:
            self.err("unknown struct `%s`" % n, e)
        st = self.c.structs[n]
        tps = [p for p, _ in st.params]
        s = {}
        ex = strip_ref(expected)[0] if expected is not None else None
        if ex is not None and ex[0] == 'adt' and ex[1] == n:
            s = {p: a for p, a in zip(tps, ex[2]) if a[0] != 'unknown'}
        decl = [(fn, self.c.conv_type(fty, tps, st.file)) for fn, fty in st.fields]
        given = dict(e.fields)
        if set(given) != set(fn for fn, _ in decl):
            self.err("struct literal does not list exactly the declared fields", e)
        # evaluate in source order, emit in declaration order
        vals = {}
        for fn, fe in e.fields:
            fty = subst(dict(decl)[fn], s)
            a, t = self.expr(fe, fty if 'param' not in str(fty) else None)
            unify(dict(decl)[fn], t, s)
            vals[fn] = a
        args = tuple(s.get(p, T_UNKNOWN) for p in tps)
        return "(%s_mk %s)" % (n, ' '.join(vals[fn] for fn, _ in decl)), ('adt', n, args)

    def e_unop(self, e, expected):
        a, t = self.expr(e.e, expected)
        t, _ = strip_ref(t)
        if e.op == '!':
            if t[0] == 'bool':
                return "(negb %s)" % a, t
            if t[0] == 'int':
                return "(bitnot %d %s)" % (t[1], a), t
            self.err("`!` on this type is not supported", e)
        self.err("unary `-` is not supported (unsigned arithmetic only)", e)

    def arith(self, op, a, b, t, node, rhs_type=None):
        bits = t[1]
        if op in ('&', '|', '^'):
            return "(%s %s %s)" % ({'&': 'N.land', '|': 'N.lor', '^': 'N.lxor'}[op], a, b)
        if op in ('<<', '>>'):
            if b.isdigit() and int(b) < bits:
                if op == '<<':
                    return "(trunc %d (N.shiftl %s %s))" % (bits, a, b)
                return "(N.shiftr %s %s)" % (a, b)
            return self.emit_val("call (%s %d %s %s)" % ('chk_shl' if op == '<<' else 'chk_shr', bits, a, b))
        if op in ('/', '%') and b.isdigit() and int(b) != 0:
            return "(%s %s %s)" % ('N.div' if op == '/' else 'N.modulo', a, b)
        fn = {'+': 'chk_add', '-': 'chk_sub', '*': 'chk_mul', '/': 'chk_div', '%': 'chk_rem'}[op]
        return self.emit_val("call (%s %d %s %s)" % (fn, bits, a, b))

    def e_binop(self, e, expected):
        op = e.op
        if op in ('&&', '||'):
            if self.carried(e.rhs):
                self.err("assignment inside the right operand of && / || is not supported", e)
            a, ta = self.expr(e.lhs, T_BOOL)
            sc, (b, tb) = self.sub(lambda: self.expr(e.rhs, T_BOOL))
            if strip_ref(ta)[0] != T_BOOL or strip_ref(tb)[0] != T_BOOL:
                self.err("`%s` on non-bool operands" % op, e)
            if not sc.steps:
                return "(%s %s %s)" % ('andb' if op == '&&' else 'orb', a, b), T_BOOL
            rhs = self.seq(sc, ('ret', b))
            if op == '&&':
                m = ('if', a, rhs, ('ret', 'false'))
            else:
                m = ('if', a, ('ret', 'true'), rhs)
            return self.emit_val(m, mods=sc.mods), T_BOOL
        if op in ('==', '!=', '<', '>', '<=', '>='):
            a, b, ta, tb = self.pair(e.lhs, e.rhs)
            if op in ('==', '!='):
                r = "(%s %s %s)" % (self.eqb_term(ta, e), a, b)
                return (r if op == '==' else "(negb %s)" % r), T_BOOL
            if ta[0] not in ('int', 'char'):
                self.err("ordering comparison on a non-integer type", e)
            r = {'<': "(N.ltb %s %s)" % (a, b), '<=': "(N.leb %s %s)" % (a, b),
                 '>': "(N.ltb %s %s)" % (b, a), '>=': "(N.leb %s %s)" % (b, a)}[op]
            return r, T_BOOL
        if op in ('<<', '>>'):
            a, ta = self.expr(e.lhs, expected)
            b, tb = self.expr(e.rhs, None)
            ta = strip_ref(ta)[0]
            if ta[0] != 'int':
                self.err("shift of a non-integer / untyped literal", e)
            if strip_ref(tb)[0][0] not in ('int', 'intlit'):
                self.err("shift amount is not an integer", e)
            return self.arith(op, a, b, ta, e), ta
        a, b, ta, tb = self.pair(e.lhs, e.rhs, expected)
        if ta[0] == 'bool' and op in ('&', '|', '^'):
            return "(%s %s %s)" % ({'&': 'andb', '|': 'orb', '^': 'xorb'}[op], a, b), T_BOOL
        if ta[0] != 'int':
            self.err("arithmetic on a non-integer type", e)
        return self.arith(op, a, b, ta, e), ta

    def e_cast(self, e, expected):
        target = self.ty(e.ty)
        inner = e.e
        while inner.kind == 'paren':
            inner = inner.e
        if inner.kind == 'int' and not inner.suffix and target[0] == 'int':
            return str(inner.value % (2 ** target[1])), target
        a, t = self.expr(e.e)
        t, _ = strip_ref(t)
        if target[0] == 'int':
            if t[0] == 'int':
                return (a if target[1] >= t[1] else "(trunc %d %s)" % (target[1], a)), target
            if t[0] == 'bool':
                return "(N.b2n %s)" % a, target
            if t[0] == 'char':
                return (a if target[1] >= 32 else "(trunc %d %s)" % (target[1], a)), target
            if t[0] == 'adt' and t[1] in self.c.enums and not any(v.payload for v in self.c.enums[t[1]].variants):
                return "(%s_tag %s)" % (t[1], a), target
        if target[0] == 'char' and t == ('int', 8):
            return a, target
        if target == t:
            return a, target
        self.err("unsupported cast", e)

    def e_try(self, e, expected):
        a, t = self.expr(e.e)
        t, _ = strip_ref(t)
        ret, _ = strip_ref(self.fi.ret)
        if t[0] == 'adt' and t[1] == 'Result' and ret[0] == 'adt' and ret[1] == 'Result':
            v = self.fresh('t')
            self.emit(v, "ctry %s cret" % a)
            return v, t[2][0]
        if t[0] == 'adt' and t[1] == 'Option' and ret[0] == 'adt' and ret[1] == 'Option':
            v = self.fresh('t')
            self.emit(v, "ctry_opt %s cret" % a)
            return v, t[2][0]
        self.err("`?` on a value that is not Result/Option matching the return type", e)

    def e_return(self, e, expected):
        if e.e is None:
            a = 'tt'
        else:
            a, _ = self.expr(e.e, self.fi.ret)
        self.emit('_', "cexit %s" % a)
        self.scope.diverged = True
        return 'tt', T_NEVER

    def e_panic(self, e, expected):
        self.emit('_', "cpanic")
        self.scope.diverged = True
        return 'tt', T_NEVER

    def e_assert(self, e, expected):
        a, t = self.expr(e.cond, T_BOOL)
        self.emit('_', "cassert %s" % a)
        return 'tt', T_UNIT

    def e_assign(self, e, expected):
        if e.lhs.kind == 'path' and len(e.lhs.segs) == 1 and e.lhs.segs[0] != 'self' and self.scope.lookup(e.lhs.segs[0]) is not None:
            name = e.lhs.segs[0]
            if not self.mut_names.get(name):
                self.err("assignment to a local that is not `let mut`", e)
            cur, ty = self.scope.lookup(name)
            tyb = strip_ref(ty)[0]
            if e.op == '=':
                v, _ = self.expr(e.rhs, ty)
            else:
                op = e.op[:-1]
                r, tr = self.expr(e.rhs, ty if op not in ('<<', '>>') else None)
                if tyb[0] == 'bool' and op in ('&', '|', '^'):
                    v = "(%s %s %s)" % ({'&': 'andb', '|': 'orb', '^': 'xorb'}[op], cur, r)
                elif tyb[0] == 'int':
                    v = self.arith(op, cur, r, tyb, e)
                else:
                    self.err("compound assignment on this type is not supported", e)
            nv = self.fresh('v_' + name)
            self.emit(nv, "cret %s" % v)
            self.scope.locals[name] = (nv, ty)
            return 'tt', T_UNIT
        place = self.self_place(e.lhs)
        if place is None or not place or not self.mut_self:
            self.err("assignment to anything but a field of `&mut self` is not supported", e)
        # type of the place
        _, pty = self.setter(place, '_', e)
        if e.op == '=':
            v, _ = self.expr(e.rhs, pty)
        else:
            op = e.op[:-1]
            r, tr = self.expr(e.rhs, pty if op not in ('<<', '>>') else None)
            cur, tcur = self.expr(e.lhs)
            tcur = strip_ref(tcur)[0]
            if tcur[0] == 'bool' and op in ('&', '|', '^'):
                v = "(%s %s %s)" % ({'&': 'andb', '|': 'orb', '^': 'xorb'}[op], cur, r)
            elif tcur[0] == 'int':
                v = self.arith(op, cur, r, tcur, e)
            else:
                self.err("compound assignment on this type is not supported", e)
        term, _ = self.setter(place, v, e)
        self.emit('_', "cput %s" % term, mods=True)
        return 'tt', T_UNIT

    # -- calls ------------------------------------------------------------------
    def call_fn(self, fi, recv, recv_ty, arg_exprs, node, recv_place=None):
        """Emit a call to crate function fi. recv: atom of the receiver or None."""
        self.fi.deps.add(fi.coq)
        if len(arg_exprs) != len(fi.args):
            self.err("wrong number of arguments in call to %s" % fi.name, node)
        s = {}
        if recv_ty is not None and fi.self_ty is not None:
            unify(fi.self_ty, recv_ty, s)
        elif fi.self_ty is not None and self.fi.self_ty is not None and strip_ref(fi.self_ty)[0][1] == strip_ref(self.fi.self_ty)[0][1]:
            # Self::f(..) inside the same type: same parameters
            for p, _ in fi.bounds:
                s.setdefault(p, ('param', p))
        atoms = []
        for ae, (an, aty) in zip(arg_exprs, fi.args):
            ex = subst(aty, s)
            a, t = self.expr(ae, ex if not self.has_param(ex) else None)
            unify(aty, t, s)
            atoms.append(a)
        dicts = []
        for (dn, tr, mnode, p) in self.dict_params(fi.bounds):
            if p not in s:
                self.err("cannot infer type parameter %s of %s" % (p, fi.coq), node)
            dicts.append(self.resolve_dict(s[p], tr, mnode.name, node))
        parts = [fi.coq] + dicts + ([recv] if recv is not None else []) + atoms
        app = "(%s)" % ' '.join(parts) if len(parts) > 1 else parts[0]
        ret = subst(fi.ret, s)
        return self.finish_call(app, fi.self_kind == 'mut', ret, recv_place, node)

    @staticmethod
    def has_param(t):
        return 'param' in repr(t) or 'unknown' in repr(t)

    def finish_call(self, app, is_mut, ret, recv_place, node):
        if is_mut:
            if recv_place is None or not self.mut_self:
                self.err("`&mut self` method called on something that is not `self` or a field path of `&mut self`", node)
            if recv_place == []:
                put = "(fun v _ => v)"
            else:
                term, _ = self.setter(recv_place, 'v', node)
                put = "(fun v _ => %s)" % term
            v = self.emit_val("call_mut %s %s" % (app, put), mods=True)
        else:
            v = self.emit_val("call %s" % app)
        if ret == T_NEVER:
            self.scope.diverged = True
        return v, ret

    def e_call(self, e, expected):
        f = e.fn
        if f.kind != 'path':
            self.err("calls through expressions are not supported", e)
        segs = f.segs
        n = segs[-1]
        if len(segs) == 1 and self.scope.lookup(n) is not None:
            fa, ft = self.scope.lookup(n)
            fb, _ = strip_ref(ft)
            if fb[0] != 'fnptr':
                self.err("calling a local value that is not a fn pointer", e)
            if len(e.args) != len(fb[1]):
                self.err("wrong number of arguments in call through a fn pointer", e)
            atoms = []
            for ae, aty in zip(e.args, fb[1]):
                a, t = self.expr(ae, aty)
                atoms.append(a)
            v = self.emit_val("call (%s %s)" % (fa, ' '.join(atoms)))
            if fb[2] == T_NEVER:
                self.scope.diverged = True
            return v, fb[2]
        if len(segs) >= 2 and segs[-2] == 'mem' and n in ('replace', 'take') and len(e.args) == (2 if n == 'replace' else 1) \
                and e.args[0].kind == 'ref' and e.args[0].mut:
            # `mem::replace(&mut place, v)` / `mem::take(&mut place)`: the old value is the result, the place is
            # overwritten (a field of `&mut self` or a `let mut` local - whatever an assignment accepts)
            place = e.args[0].e
            cur, tcur = self.expr(place)
            old = self.emit_val("cret %s" % cur)
            if n == 'replace':
                rhs = e.args[1]
            else:
                tb = strip_ref(tcur)[0]
                if tb[0] == 'bool':
                    rhs = Node('bool', e.line, value=False)
                elif tb[0] == 'int':
                    rhs = Node('int', e.line, value=0, suffix=None)
                elif tb[0] == 'adt' and tb[1] == 'Option':
                    rhs = Node('path', e.line, segs=['None'])
                else:
                    self.err("`mem::take` on this type is not supported", e)
            self.e_assign(Node('assign', e.line, op='=', lhs=place, rhs=rhs), None)
            return old, strip_ref(tcur)[0]
        if n in ('Some', 'Ok', 'Err') and len(e.args) == 1 and (len(segs) == 1 or segs[-2] in ('Option', 'Result')):
            ex = strip_ref(expected)[0] if expected is not None else None
            if n == 'Some':
                inner = ex[2][0] if ex is not None and ex[0] == 'adt' and ex[1] == 'Option' else None
                a, t = self.expr(e.args[0], inner)
                return "(Some %s)" % a, ('adt', 'Option', (t,))
            exr = ex if ex is not None and ex[0] == 'adt' and ex[1] == 'Result' else None
            if n == 'Ok':
                a, t = self.expr(e.args[0], exr[2][0] if exr else None)
                return "(Ok %s)" % a, ('adt', 'Result', (t, exr[2][1] if exr else T_UNKNOWN))
            a, t = self.expr(e.args[0], exr[2][1] if exr else None)
            return "(Err %s)" % a, ('adt', 'Result', (exr[2][0] if exr else T_UNKNOWN, t))
        if len(segs) == 2 and n == 'from' and len(e.args) == 1 and segs[0] in ('char', 'u8', 'u16', 'u32', 'u64', 'usize'):
            a, t = self.expr(e.args[0])
            t = strip_ref(t)[0]
            if segs[0] == 'char' and t in (('int', 8), ('intlit',)):
                return a, T_CHAR
            if segs[0] != 'char':
                tgt = ('int', INT_BITS[segs[0]])
                if t[0] == 'int' and t[1] <= tgt[1]:
                    return a, tgt
                if t[0] == 'bool':
                    return "(N.b2n %s)" % a, tgt
                if t[0] == 'char' and tgt[1] >= 32:
                    return a, tgt
            self.err("unsupported `%s::from` conversion" % segs[0], e)
        owner = None
        if len(segs) >= 2:
            owner = segs[-2]
            if owner == 'Self' and self.fi.self_ty is not None:
                owner = strip_ref(self.fi.self_ty)[0][1]
        if owner in self.c.enums:
            en = self.c.enums[owner]
            for v in en.variants:
                if v.name == n:
                    tps = [p for p, _ in en.params]
                    s = {}
                    atoms = []
                    if len(v.payload) != len(e.args):
                        self.err("wrong number of constructor arguments", e)
                    for pe, pty in zip(e.args, v.payload):
                        pt = self.c.conv_type(pty, tps, en.file)
                        a, t = self.expr(pe, pt if not self.has_param(pt) else None)
                        unify(pt, t, s)
                        atoms.append(a)
                    return "(%s_%s %s)" % (owner, n, ' '.join(atoms)), ('adt', owner, tuple(s.get(p, T_UNKNOWN) for p in tps))
        if n in self.c.structs and self.c.structs[n].tuple and (len(segs) == 1 or owner in ('crate', 'super', 'self')):
            st = self.c.structs[n]
            tps = [p for p, _ in st.params]
            s, atoms = {}, []
            for pe, (_, pty) in zip(e.args, st.fields):
                pt = self.c.conv_type(pty, tps, st.file)
                a, t = self.expr(pe, pt if not self.has_param(pt) else None)
                unify(pt, t, s)
                atoms.append(a)
            return "(%s_mk %s)" % (n, ' '.join(atoms)), ('adt', n, tuple(s.get(p, T_UNKNOWN) for p in tps))
        if owner is not None and (owner in self.c.structs or owner in self.c.enums):
            cands = [fi for (tn, nr, mn), lst in self.c.methods.items() if tn == owner and mn == n for fi in lst]
            if not cands:
                self.err("no function `%s::%s`" % (owner, n), e)
            if len(cands) > 1:
                self.err("ambiguous function `%s::%s`" % (owner, n), e)
            fi = cands[0]
            if fi.self_kind is not None:
                # UFCS call: first argument is the receiver
                if not e.args:
                    self.err("method called without receiver", e)
                place = self.self_place(e.args[0])
                a, t = self.expr(e.args[0])
                return self.call_fn(fi, a, t, e.args[1:], e, place)
            exs = {}
            if expected is not None:
                unify(fi.ret, expected, exs)
            return self.call_fn_static(fi, e.args, e, exs)
        if owner is not None and owner in self.tparams:
            self.err("associated functions of type parameters are not supported", e)
        if n in self.c.free_fns and (owner is None or owner in ('crate', 'super', 'self') or True):
            return self.call_fn_static(self.c.free_fns[n], e.args, e, {})
        self.err("cannot resolve callee `%s`" % '::'.join(segs), e)

    def call_fn_static(self, fi, arg_exprs, node, s0):
        # like call_fn, with pre-seeded substitution from the expected type
        self.fi.deps.add(fi.coq)
        if len(arg_exprs) != len(fi.args):
            self.err("wrong number of arguments in call to %s" % fi.name, node)
        s = dict(s0)
        if fi.self_ty is not None and self.fi.self_ty is not None and strip_ref(fi.self_ty)[0][1] == strip_ref(self.fi.self_ty)[0][1]:
            for p, _ in fi.bounds:
                if p in self.tparams:
                    s.setdefault(p, ('param', p))
        atoms = []
        for ae, (an, aty) in zip(arg_exprs, fi.args):
            ex = subst(aty, s)
            a, t = self.expr(ae, ex if not self.has_param(ex) else None)
            unify(aty, t, s)
            atoms.append(a)
        dicts = []
        for (dn, tr, mnode, p) in self.dict_params(fi.bounds):
            if p not in s:
                self.err("cannot infer type parameter %s of %s" % (p, fi.coq), node)
            dicts.append(self.resolve_dict(s[p], tr, mnode.name, node))
        parts = [fi.coq] + dicts + atoms
        app = "(%s)" % ' '.join(parts) if len(parts) > 1 else parts[0]
        return self.finish_call(app, False, subst(fi.ret, s), None, node)

    def probe(self, tname, nrefs, mname):
        """Rust method probing order over impls for `tname` behind j references."""
        order = []
        for k in range(nrefs, -1, -1):
            for j in (k - 1, k):
                if j >= 0 and j not in order:
                    order.append(j)
        for j in order:
            lst = self.c.methods.get((tname, j, mname))
            if lst:
                return lst[0]
        # more references than the receiver has (auto-ref once more is already covered by j = k)
        return None

    def e_range(self, e, expected):
        self.err("range expressions are only supported as the receiver of `.contains(..)`", e)

    def e_mcall(self, e, expected):
        inner = e.recv
        while inner.kind == 'paren':
            inner = inner.e
        if inner.kind == 'range' and e.name == 'contains' and len(e.args) == 1:
            x, tx = self.expr(e.args[0])
            tx = strip_ref(tx)[0]
            lo, tl = self.expr(inner.lo, tx)
            hi, th = self.expr(inner.hi, tx)
            if tx[0] not in ('int', 'char'):
                self.err("`contains` on a range of a non-integer type", e)
            upper = "(N.leb %s %s)" % (x, hi) if inner.inclusive else "(N.ltb %s %s)" % (x, hi)
            return "(andb (N.leb %s %s) %s)" % (lo, x, upper), T_BOOL
        place = self.self_place(e.recv)
        r, rt = self.expr(e.recv)
        base, nrefs = strip_ref(rt)
        name = e.name
        k = base[0]
        # built-in methods
        if k in ('int', 'intlit', 'char', 'bool'):
            if name == 'into' and not e.args:
                ex = strip_ref(expected)[0] if expected is not None else None
                if ex == T_CHAR and k in ('int', 'intlit'):
                    if k == 'int' and base[1] != 8:
                        self.err("only u8 converts into char", e)
                    if k == 'intlit' and int(r) > 255:
                        self.err("literal does not fit u8", e)
                    return r, T_CHAR
                if ex is not None and ex[0] == 'int' and k == 'intlit':
                    return r, ex
                if ex is not None and ex[0] == 'int' and k == 'int' and ex[1] >= base[1]:
                    return r, ex
                if ex is not None and ex == base:
                    return r, ex
                self.err("unsupported `.into()` conversion", e)
            if name == 'clone' and not e.args:
                return r, base
            if name in ('to_ascii_uppercase', 'to_ascii_lowercase') and not e.args and k in ('int', 'char'):
                return "(%s %s)" % ('ascii_upper' if name.endswith('uppercase') else 'ascii_lower', r), base
            if name in ('is_ascii_lowercase', 'is_ascii_uppercase', 'is_ascii_alphabetic', 'is_ascii_digit') and not e.args and k in ('int', 'char'):
                return "(%s %s)" % (name, r), T_BOOL
            if k == 'int':
                if name == 'count_ones' and not e.args:
                    return "(popcount %s)" % r, ('int', 32)
                if name in ('wrapping_add', 'wrapping_sub') and len(e.args) == 1:
                    a, _ = self.expr(e.args[0], base)
                    return "(%s %d %s %s)" % ('wrap_add' if name == 'wrapping_add' else 'wrap_sub', base[1], r, a), base
            self.err("method `%s` on a primitive is not supported" % name, e)
        if k == 'adt' and base[1] in ('Option', 'Result'):
            if name in ('is_some', 'is_none', 'is_ok', 'is_err') and not e.args:
                pos = {'is_some': 'Some _', 'is_none': 'None', 'is_ok': 'Ok _', 'is_err': 'Err _'}[name]
                return "(match %s with %s => true | _ => false end)" % (r, pos), T_BOOL
            if name in ('map', 'map_err') and len(e.args) == 1 and e.args[0].kind == 'path':
                # only with a constructor as the function: `.map(Some)`, `.map(Ok)`, `.map_err(Wrapper)`
                cn = e.args[0].segs[-1]
                ctor, rty = None, None
                argty = (base[2][1] if (base[1] == 'Result' and name == 'map_err') else base[2][0])
                if cn == 'Some' and len(e.args[0].segs) == 1:
                    ctor, rty = 'Some', ('adt', 'Option', (argty,))
                if ctor is None:
                    self.err("`.%s(..)` is only supported with `Some` as the function" % name, e)
                if base[1] == 'Result' and name == 'map':
                    return "(match %s with Ok x => Ok (%s x) | Err x => Err x end)" % (r, ctor), ('adt', 'Result', (rty, base[2][1]))
                if base[1] == 'Result' and name == 'map_err':
                    return "(match %s with Ok x => Ok x | Err x => Err (%s x) end)" % (r, ctor), ('adt', 'Result', (base[2][0], rty))
                if base[1] == 'Option' and name == 'map':
                    return "(match %s with Some x => Some (%s x) | None => None end)" % (r, ctor), ('adt', 'Option', (rty,))
                self.err("unsupported `.%s`" % name, e)
            if name == 'ok' and not e.args and base[1] == 'Result':
                return "(match %s with Ok x => Some x | Err _ => None end)" % r, ('adt', 'Option', (base[2][0],))
            if name == 'unwrap_or' and len(e.args) == 1:
                dflt, _ = self.expr(e.args[0], base[2][0])
                pos = 'Some x' if base[1] == 'Option' else 'Ok x'
                return "(match %s with %s => x | _ => %s end)" % (r, pos, dflt), base[2][0]
            if name == 'ok_or' and len(e.args) == 1 and base[1] == 'Option':
                er, te = self.expr(e.args[0])
                return "(match %s with Some x => Ok x | None => Err %s end)" % (r, er), ('adt', 'Result', (base[2][0], te))
            if name == 'unwrap' and not e.args:
                pos = 'Some x' if base[1] == 'Option' else 'Ok x'
                v = self.emit_val("(match %s with %s => cret x | _ => cpanic end)" % (r, pos))
                return v, base[2][0]
            if name == 'clone' and not e.args:
                return r, base
            if name in ('take', 'replace') and base[1] == 'Option' and len(e.args) == (0 if name == 'take' else 1):
                # `place.take()` / `place.replace(v)`: the old value is the result, the place is overwritten
                # (a field of `&mut self` or a `let mut` local - whatever an assignment accepts)
                old = self.emit_val("cret %s" % r)
                rhs = Node('path', e.line, segs=['None']) if name == 'take' else \
                    Node('call', e.line, fn=Node('path', e.line, segs=['Some']), args=[e.args[0]])
                self.e_assign(Node('assign', e.line, op='=', lhs=e.recv, rhs=rhs), None)
                return old, base
            self.err("method `%s` on Option/Result is not supported" % name, e)
        if k == 'param':
            for p, traits in self.fi.bounds:
                if p == base[1]:
                    for tr in traits:
                        for f in self.c.traits[tr].fns:
                            if f.name == name:
                                return self.call_dict(p, tr, f, r, base, e, place)
            if name == 'clone':
                return r, base
            self.err("no method `%s` on type parameter %s" % (name, base[1]), e)
        if k == 'adt':
            fi = self.probe(base[1], nrefs, name)
            if fi is None:
                if name == 'clone' and not e.args:
                    return r, base
                self.err("no method `%s` on %s" % (name, base[1]), e)
            if fi.self_kind is None:
                self.err("`%s` is not a method" % name, e)
            return self.call_fn(fi, r, base, e.args, e, place)
        self.err("method call on an unsupported receiver type", e)

    def call_dict(self, p, trait, fnode, recv, recv_ty, e, place):
        """Call a trait method of a bounded type parameter through its dictionary."""
        tps = [p]
        atoms = []
        if len(fnode.args) != len(e.args):
            self.err("wrong number of arguments", e)
        tr = self.c.traits[trait]
        for ae, (pat, ty) in zip(e.args, fnode.args):
            aty = self.c.conv_type(ty, [], tr.file, ('param', p))
            a, _ = self.expr(ae, aty)
            atoms.append(a)
        ret = self.c.conv_type(fnode.ret, [], tr.file, ('param', p))
        app = "(%s_%s %s)" % (p, fnode.name, ' '.join([recv] + atoms))
        return self.finish_call(app, fnode.self_kind == 'mut', ret, place, e)

    # -- blocks, if, match ----------------------------------------------------------
    def block_m(self, blk, expected, carry=()):
        """Translate a block in a child scope; returns (scope, M, type).  With `carry` (names of mutable
        locals of enclosing scopes) the block's value is the tuple (value, carried locals after the block)."""
        def go():
            for st in blk.stmts:
                if st.kind == 'let':
                    self.let(st)
                else:
                    a, t = self.expr(st.e, None)
                if self.scope.diverged:
                    return None, T_NEVER
            if blk.tail is None:
                a, t = 'tt', T_UNIT
            else:
                a, t = self.expr(blk.tail, expected)
            if carry and not self.scope.diverged:
                a = "(%s)" % ', '.join([a] + [self.scope.lookup(x)[0] for x in carry])
            return a, t
        sc, (atom, t) = self.sub(go)
        if sc.diverged:
            # the last emitted step is the diverging one; nothing after it runs
            steps = sc.steps
            last = steps.pop()
            sc2 = Scope()
            sc2.steps = steps
            return sc, self.seq(sc2, last[1] if not isinstance(last[1], str) else ('raw', last[1])), T_NEVER
        return sc, self.seq(sc, ('ret', atom)), t

    def as_block(self, e):
        if e.kind == 'block':
            return e
        return Node('block', e.line, stmts=[], tail=e)

    def let(self, st):
        ty = self.ty(st.ty) if st.ty is not None else None
        a, t = self.expr(st.value, ty)
        if self.scope.diverged:
            return
        if ty is not None:
            t = ty
        if t[0] == 'intlit':
            self.err("cannot infer the type of an integer literal", st)
        p = st.pat
        if p.kind == 'pwild':
            return
        if p.kind == 'ppath' and len(p.segs) == 1 and not self.is_const_name(p.segs[0]) and (p.segs[0][0].islower() or p.segs[0][0] == '_'):
            if getattr(st, 'is_mut', False):
                self.mut_names[p.segs[0]] = True
                self.scope.muts.add(p.segs[0])
            if is_simple(a):
                self.bind_local(p.segs[0], t, a)
            else:
                v = self.bind_local(p.segs[0], t)
                self.emit(v, "cret %s" % a)
            return
        if p.kind in ('ptuple', 'pstruct'):
            # irrefutable destructuring: name the value, then bind each component by projection
            if not is_simple(a):
                v = self.fresh('d')
                self.emit(v, "cret %s" % a)
                a = v
            self.bind_irrefutable(p, a, t, st)
            return
        self.err("destructuring `let` with this pattern is not supported", st)

    def bind_irrefutable(self, p, atom, ty, node):
        base, nrefs = strip_ref(ty)

        def wrap(t):
            return ('ref', t) if nrefs and t[0] != 'ref' else t
        if p.kind == 'pwild':
            return
        if p.kind == 'ppath' and len(p.segs) == 1 and not self.is_const_name(p.segs[0]) and (p.segs[0][0].islower() or p.segs[0][0] == '_'):
            if is_simple(atom):
                self.bind_local(p.segs[0], wrap(base), atom)
            else:
                v = self.bind_local(p.segs[0], wrap(base))
                self.emit(v, "cret %s" % atom)
            return
        if p.kind == 'ptuple':
            if base[0] != 'tuple' or len(base[1]) != len(p.elems):
                self.err("tuple pattern against a non-tuple", node)
            n = len(p.elems)
            for i, (x, t) in enumerate(zip(p.elems, base[1])):
                self.bind_irrefutable(x, tuple_proj(atom, i, n), wrap(t), node)
            return
        if p.kind == 'pstruct':
            n = p.segs[-1]
            if n == 'Self' and self.fi.self_ty is not None:
                n = strip_ref(self.fi.self_ty)[0][1]
            if n not in self.c.structs or base[0] != 'adt' or base[1] != n:
                self.err("struct pattern does not match the value's type", node)
            fl = dict(self.struct_fields(base, node))
            for f, sub in p.fields:
                if f not in fl:
                    self.err("no field `%s`" % f, node)
                self.bind_irrefutable(sub, "(%s_%s %s)" % (n, f, atom), wrap(fl[f]), node)
            return
        self.err("destructuring `let` with a refutable or unsupported pattern", node)

    def is_const_name(self, n):
        return n in self.c.consts or (n in self.c.structs and self.c.structs[n].unit)

    def e_block(self, e, expected):
        carry = self.carried(e)
        sc, m, t = self.block_m(e, expected, carry)
        if carry:
            return self.use_carry(carry, sc.mods, m, t, m[1] if m[0] == 'ret' else None)
        return self.use_m(sc, m, t)

    def use_m(self, sc, m, t):
        """Use the monadic term m (built from scope sc) as a value in the current scope."""
        if isinstance(m, tuple) and m[0] == 'ret':
            return m[1], t
        if t == T_NEVER:
            self.scope.steps.append(('_', m))
            if sc.mods:
                self.scope.mods = True
            self.scope.diverged = True
            return 'tt', T_NEVER
        if t == T_UNIT:
            self.emit('_', m, mods=sc.mods)
            return 'tt', t
        return self.emit_val(m, mods=sc.mods), t

    def e_if(self, e, expected):
        c, tc = self.expr(e.cond, T_BOOL)
        if strip_ref(tc)[0] != T_BOOL:
            self.err("`if` condition is not bool", e)
        carry = self.carried(e.then, e.els)
        sc1, m1, t1 = self.block_m(e.then, expected, carry)
        if e.els is None:
            els_blk = Node('block', e.line, stmts=[], tail=None)
            sc2, m2, t2 = self.block_m(els_blk, None, carry) if carry else (Scope(), ('ret', 'tt'), T_UNIT)
        else:
            sc2, m2, t2 = self.block_m(self.as_block(e.els), expected if t1[0] in ('never',) or expected is not None else t1, carry)
        t = merge_types(t1, t2)
        if carry:
            return self.use_carry(carry, sc1.mods or sc2.mods, ('if', c, m1, m2), t,
                                  "(if %s then %s else %s)" % (c, m1[1], m2[1]) if (m1[0] == 'ret' and m2[0] == 'ret') else None)
        if m1[0] == 'ret' and m2[0] == 'ret':
            return "(if %s then %s else %s)" % (c, m1[1], m2[1]), t
        sc = Scope()
        sc.mods = sc1.mods or sc2.mods
        return self.use_m(sc, ('if', c, m1, m2), t)

    def use_carry(self, carry, mods, m, t, pure):
        """Bind the tuple produced by a branching construct and rebind the carried mutable locals."""
        if t == T_NEVER:
            sc = Scope()
            sc.mods = mods
            return self.use_m(sc, m, t)
        tup = self.fresh('t')
        self.emit(tup, ("cret %s" % pure) if pure is not None else m, mods=mods)
        self.rebind_carried(carry, tup)
        return tuple_proj(tup, 0, len(carry) + 1), t

    def e_iflet(self, e, expected):
        arms = [Node('arm', e.line, pat=e.pat, guard=None, body=e.then),
                Node('arm', e.line, pat=Node('pwild', e.line), guard=None,
                     body=e.els if e.els is not None else Node('block', e.line, stmts=[], tail=None))]
        return self.e_match(Node('match', e.line, scrut=e.scrut, arms=arms), expected)

    def e_matches(self, e, expected):
        arms = [Node('arm', e.line, pat=e.pat, guard=e.guard, body=Node('bool', e.line, value=True)),
                Node('arm', e.line, pat=Node('pwild', e.line), guard=None, body=Node('bool', e.line, value=False))]
        return self.e_match(Node('match', e.line, scrut=e.scrut, arms=arms), T_BOOL)

    def mentions_dropped(self, p):
        """The pattern names an enum variant that was left out of the model (payload type outside the subset)."""
        k = p.kind
        if k in ('ppath', 'ptstruct', 'pstruct') and len(getattr(p, 'segs', [])) >= 2:
            en = p.segs[-2]
            if en == 'Self' and self.fi.self_ty is not None:
                en = strip_ref(self.fi.self_ty)[0][1]
            if p.segs[-1] in self.c.dropped_variants.get(en, {}):
                return True
        for sub in list(getattr(p, 'elems', []) or []) + [x for _, x in (getattr(p, 'fields', []) or [])] + list(getattr(p, 'alts', []) or []):
            if hasattr(sub, 'kind') and self.mentions_dropped(sub):
                return True
        inner = getattr(p, 'pat', None)
        if inner is not None and hasattr(inner, 'kind') and self.mentions_dropped(inner):
            return True
        return False

    def e_match(self, e, expected):
        if self.c.dropped_variants and any(self.mentions_dropped(a.pat) for a in e.arms):
            kept = [a for a in e.arms if not self.mentions_dropped(a.pat)]
            if not kept:
                self.err("every arm of this match is on a variant outside the model", e)
            e = Node('match', e.line, scrut=e.scrut, arms=kept)
        s, ts = self.expr(e.scrut)
        tb, _ = strip_ref(ts)
        if tb[0] == 'intlit':
            self.err("match on an untyped literal", e)
        if tb[0] in ('int', 'char'):
            return self.match_int(e, s, tb, expected)
        if any(arm.guard is not None for arm in e.arms):
            return self.match_guarded(e, s, ts, expected)
        arms = []
        t = T_NEVER
        mods = False
        carry = self.carried(*[arm.body for arm in e.arms])
        for arm in e.arms:

            def go(arm=arm):
                pat = self.pat(arm.pat, ts)
                sc, m, bt = self.block_m(self.as_block(arm.body), expected, carry)
                return pat, sc, m, bt
            scx, (pat, sc, m, bt) = self.sub(go)
            if t[0] in ('never', 'unknown') and expected is None and bt[0] not in ('never',):
                expected = bt if not self.has_param(bt) else None
            t = merge_types(t, bt)
            mods = mods or sc.mods
            arms.append((pat, m))
        pure = None
        if all(m[0] == 'ret' for _, m in arms):
            body = ' '.join("| %s => %s" % (p, m[1]) for p, m in arms)
            pure = "(match %s with %s end)" % (s, body)
        if carry:
            return self.use_carry(carry, mods, ('match', s, arms), t, pure)
        if pure is not None:
            return pure, t
        sc = Scope()
        sc.mods = mods
        return self.use_m(sc, ('match', s, arms), t)

    def irrefutable(self, p):
        k = p.kind
        if k == 'pwild':
            return True
        if k == 'ppath':
            n = p.segs[-1]
            if len(p.segs) == 1 and not self.is_const_name(n) and (n[0].islower() or n[0] == '_'):
                return True
            return n in self.c.structs and self.c.structs[n].unit
        if k == 'ptuple':
            return all(self.irrefutable(x) for x in p.elems)
        if k == 'pstruct':
            return p.segs[-1] in self.c.structs and all(self.irrefutable(x) for _, x in p.fields)
        return False

    def match_guarded(self, e, s, ts, expected):
        """Guards on a structured scrutinee: the arms are tried one after the other, as Rust does.
             M_i = match s with pat_i => if guard_i then body_i else M_(i+1) | _ => M_(i+1) end
           and after the last guarded arm one ordinary match over all the unguarded arms (which rustc has
           checked to be exhaustive on their own).  The scrutinee is evaluated once and named."""
        if sum(1 for a in e.arms if a.guard is not None and not self.irrefutable(a.pat)) > 6:
            self.err("too many guarded arms in one match", e)
        if not is_simple(s):
            v = self.fresh('m')
            self.emit(v, "cret %s" % s)
            s = v
        self.gensym = getattr(self, 'gensym', 0) + 1
        name = 'scrut__%d' % self.gensym
        self.bind_local(name, ts, s)
        sp = Node('path', e.line, segs=[name])
        unguarded = [a for a in e.arms if a.guard is None]
        last_guarded = max(i for i, a in enumerate(e.arms) if a.guard is not None)

        def wild(body):
            return Node('arm', e.line, pat=Node('pwild', e.line), guard=None, body=body)

        def build(i):
            if i > last_guarded:
                if not unguarded:
                    self.err("match with guards on every arm", e)
                return Node('match', e.line, scrut=sp, arms=unguarded)
            # the run of unguarded arms up to the next guarded one goes into ONE match (one nested match per
            # arm made a 120-arm layout match with a late guarded arm take minutes to compile)
            j = i
            while e.arms[j].guard is None:
                j += 1
            before = e.arms[i:j]
            for k, b in enumerate(before):
                if self.irrefutable(b.pat):
                    return Node('match', e.line, scrut=sp, arms=before[:k + 1])
            a = e.arms[j]
            body = Node('if', a.line, cond=a.guard, then=self.as_block(a.body), els=self.as_block(build(j + 1)))
            arm = Node('arm', a.line, pat=a.pat, guard=None, body=body)
            if self.irrefutable(a.pat):
                return Node('match', e.line, scrut=sp, arms=before + [arm])
            return Node('match', e.line, scrut=sp, arms=before + [arm, wild(build(j + 1))])
        return self.e_match(build(0), expected)

    def int_pat_cond(self, p, s, ty):
        """Boolean Coq term: scrutinee atom s matches integer pattern p; or None for irrefutable.
        Returns (cond, binding name or None)."""
        if p.kind == 'pwild':
            return None, None
        if p.kind == 'plit':
            return "(N.eqb %s %d)" % (s, p.value), None
        if p.kind == 'ppath':
            n = p.segs[-1]
            if n in self.c.consts:
                return "(N.eqb %s %s)" % (s, n), None
            if len(p.segs) == 1 and (n[0].islower() or n[0] == '_'):
                return None, n
            self.err("unsupported path pattern", p)
        if p.kind == 'prange':
            def bound(b):
                if b.kind == 'plit':
                    return str(b.value)
                if b.kind == 'ppath' and b.segs[-1] in self.c.consts:
                    return b.segs[-1]
                self.err("unsupported range bound", p)
            return "(andb (N.leb %s %s) (N.leb %s %s))" % (bound(p.lo), s, s, bound(p.hi)), None
        if p.kind == 'por':
            cs = []
            for a in p.alts:
                c, b = self.int_pat_cond(a, s, ty)
                if b is not None:
                    self.err("bindings in or-patterns are not supported", p)
                if c is None:
                    return None, None
                cs.append(c)
            out = cs[-1]
            for c in reversed(cs[:-1]):
                out = "(orb %s %s)" % (c, out)
            return out, None
        self.err("unsupported pattern for an integer scrutinee", p)

    def match_int(self, e, s, ty, expected):
        if not is_simple(s):
            s = self.emit_val("cret %s" % s, 'v_scrut')
        arms = []
        t = T_NEVER
        mods = False
        carry = self.carried(*[arm.body for arm in e.arms])
        for arm in e.arms:
            def go(arm=arm):
                cond, b = self.int_pat_cond(arm.pat, s, ty)
                if b is not None:
                    self.bind_local(b, ty, s)
                if arm.guard is not None:
                    gsc, (g, tg) = self.sub(lambda: self.expr(arm.guard, T_BOOL))
                    if gsc.steps:
                        self.err("match guards with calls or arithmetic are not supported", arm)
                    cond = g if cond is None else "(andb %s %s)" % (cond, g)
                sc, m, bt = self.block_m(self.as_block(arm.body), expected, carry)
                return cond, sc, m, bt
            scx, (cond, sc, m, bt) = self.sub(go)
            if t[0] in ('never', 'unknown') and expected is None and bt[0] != 'never':
                expected = bt if not self.has_param(bt) else None
            t = merge_types(t, bt)
            mods = mods or sc.mods
            arms.append((cond, m))
            if cond is None:
                break
        if arms[-1][0] is not None:
            # exhaustive without a catch-all (e.g. 0..=255 on u8): the last arm needs no test
            arms[-1] = (None, arms[-1][1])
        pure = None
        if all(m[0] == 'ret' for _, m in arms):
            pure = arms[-1][1][1]
            for c, m in reversed(arms[:-1]):
                pure = "(if %s then %s else %s)" % (c, m[1], pure)
        if carry:
            return self.use_carry(carry, mods, ('ifchain', arms), t, pure)
        if pure is not None:
            return pure, t
        sc = Scope()
        sc.mods = mods
        return self.use_m(sc, ('ifchain', arms), t)

    # -- patterns for Coq `match` ---------------------------------------------------
    def pat(self, p, ty):
        base, nrefs = strip_ref(ty)

        def wrap(t):
            # bindings made through a reference are references
            return ('ref', t) if nrefs and t[0] != 'ref' else t
        k = p.kind
        if k == 'pwild':
            return '_'
        if k == 'pbool':
            return 'true' if p.value else 'false'
        if k == 'plit':
            return str(p.value)
        if k == 'prange':
            self.err("range patterns inside structured patterns are not supported", p)
        if k == 'por':
            return '(' + ' | '.join(self.pat(a, ty) for a in p.alts) + ')'
        if k == 'ptuple':
            if base[0] != 'tuple' or len(base[1]) != len(p.elems):
                self.err("tuple pattern against a non-tuple", p)
            return '(' + ', '.join(self.pat(x, wrap(t)) for x, t in zip(p.elems, base[1])) + ')'
        if k == 'ppath':
            n = p.segs[-1]
            if n in self.c.consts and base[0] in ('int', 'char'):
                return str(self.c.consts[n][1])
            if n in self.c.structs and self.c.structs[n].unit:
                return n + '_mk'
            if n == 'None' and base[0] == 'adt' and base[1] == 'Option':
                return 'None'
            if len(p.segs) >= 2:
                en = p.segs[-2]
                if en == 'Self' and self.fi.self_ty is not None:
                    en = strip_ref(self.fi.self_ty)[0][1]
                if en in self.c.enums:
                    for v in self.c.enums[en].variants:
                        if v.name == n:
                            if v.payload:
                                self.err("tuple variant used as a unit pattern", p)
                            return "%s_%s" % (en, n)
                    self.err("no variant `%s` in %s" % (n, en), p)
                self.err("cannot resolve pattern path", p)
            # a binding
            if not (n[0].islower() or n[0] == '_'):
                self.err("pattern `%s` is neither a known constant nor a lower-case binding" % n, p)
            return self.bind_local(n, wrap(base))
        if k == 'ptstruct':
            n = p.segs[-1]
            if n in ('Some', 'Ok', 'Err') and base[0] == 'adt' and base[1] in ('Option', 'Result'):
                idx = {'Some': 0, 'Ok': 0, 'Err': 1}[n]
                if len(p.elems) != 1:
                    self.err("wrong arity in pattern", p)
                return "(%s %s)" % (n, self.pat(p.elems[0], wrap(base[2][idx])))
            en = p.segs[-2] if len(p.segs) >= 2 else None
            if en == 'Self' and self.fi.self_ty is not None:
                en = strip_ref(self.fi.self_ty)[0][1]
            if en in self.c.enums:
                enum = self.c.enums[en]
                tps = [q for q, _ in enum.params]
                s = dict(zip(tps, base[2])) if base[0] == 'adt' else {}
                for v in enum.variants:
                    if v.name == n:
                        if len(v.payload) != len(p.elems):
                            self.err("wrong arity in pattern", p)
                        subs = [self.pat(x, wrap(subst(self.c.conv_type(pt, tps, enum.file), s))) for x, pt in zip(p.elems, v.payload)]
                        return "(%s_%s %s)" % (en, n, ' '.join(subs))
                self.err("no variant `%s` in %s" % (n, en), p)
            if n in self.c.structs and self.c.structs[n].tuple:
                fl = self.struct_fields(base, p)
                return "(%s_mk %s)" % (n, ' '.join(self.pat(x, wrap(t)) for x, (_, t) in zip(p.elems, fl)))
            self.err("cannot resolve tuple-struct pattern", p)
        if k == 'pstruct':
            n = p.segs[-1]
            if n == 'Self' and self.fi.self_ty is not None:
                n = strip_ref(self.fi.self_ty)[0][1]
            if n not in self.c.structs or base[0] != 'adt' or base[1] != n:
                self.err("struct pattern does not match the scrutinee type", p)
            fl = self.struct_fields(base, p)
            given = dict(p.fields)
            for f in given:
                if f not in dict(fl):
                    self.err("no field `%s`" % f, p)
            if not p.rest and set(given) != set(f for f, _ in fl):
                self.err("struct pattern misses fields", p)
            subs = [self.pat(given[f], wrap(t)) if f in given else '_' for f, t in fl]
            return "(%s_mk %s)" % (n, ' '.join(subs))
        self.err("unsupported pattern", p)

    # -- whole function ---------------------------------------------------------------
    def translate(self):
        fi = self.fi
        f = fi.node
        params = []
        tps = self.tparams
        if tps:
            params.append("{%s : Type}" % ' '.join(tps))
        for (dn, tr, mnode, p) in self.dict_params(fi.bounds):
            params.append("(%s : %s)" % (dn, self.dict_type(tr, mnode, p)))
        selfc = coq_type(fi.self_ty) if fi.self_ty is not None else None
        if fi.self_kind == 'mut':
            params.append("(v_self_in : %s)" % selfc)
        elif fi.self_kind is not None:
            params.append("(v_self : %s)" % selfc)
            self.self_var = 'v_self'
            self.used['v_self'] = 1
        for an, aty in fi.args:
            if an == '_':
                params.append("(%s : %s)" % (self.fresh('v_unused'), coq_type(aty)))
            else:
                v = self.bind_local(an, aty)
                params.append("(%s : %s)" % (v, coq_type(aty)))
        if self.mut_self:
            self.refresh_self()
        sc, m, t = self.block_m_top(f.body)
        retc = coq_type(fi.ret)
        if self.mut_self:
            sig = "outcome (%s * %s)" % (selfc, retc)
            body = ('run', 'run_mut', m, 'v_self_in')
        else:
            sig = "outcome %s" % retc
            body = ('run', 'run_fn', m, None)
        head = "Definition %s %s : %s :=" % (fi.coq, ' '.join(params), sig)
        lines = [head]
        render_run(body, lines, coq_type(fi.ret), selfc if self.mut_self else 'unit')
        return '\n'.join(lines) + '.\n'

    def block_m_top(self, blk):
        # the function body shares the function scope (parameters are visible)
        pre = list(self.scope.steps)
        self.scope.steps = []
        sc, m, t = self.block_m(blk, self.fi.ret)
        if pre:
            m = ('seq', pre, m)
        return sc, m, t

    def dict_type(self, trait, mnode, p):
        tr = self.c.traits[trait]
        args = [coq_type(self.c.conv_type(ty, [], tr.file, ('param', p))) for _, ty in mnode.args]
        ret = coq_type(self.c.conv_type(mnode.ret, [], tr.file, ('param', p)))
        if mnode.self_kind == 'mut':
            res = "outcome (%s * %s)" % (p, ret)
        else:
            res = "outcome %s" % ret
        recv = [p] if mnode.self_kind is not None else []
        return ' -> '.join(recv + args + [res])


# --------------------------------------------------------------------------------------
# rendering of monadic terms

def render_m(m, ind, lines):
    """Append the lines of monadic term m at indentation ind (the term is self-delimiting:
    it is either a single application line or parenthesised)."""
    pad = ' ' * ind
    if isinstance(m, str):
        lines.append(pad + m)
        return
    k = m[0]
    if k == 'ret':
        lines.append(pad + "cret %s" % m[1])
    elif k == 'raw':
        lines.append(pad + m[1])
    elif k == 'seq':
        for var, sm in m[1]:
            if isinstance(sm, str) or sm[0] in ('ret', 'raw'):
                text = sm if isinstance(sm, str) else ("cret %s" % sm[1] if sm[0] == 'ret' else sm[1])
                lines.append(pad + "%s <- %s ;;" % (var, text))
            else:
                lines.append(pad + "%s <- (" % var)
                render_m(sm, ind + 2, lines)
                lines.append(pad + ") ;;")
        render_m(m[2], ind, lines)
    elif k == 'if':
        lines.append(pad + "if %s then (" % m[1])
        render_m(m[2], ind + 2, lines)
        lines.append(pad + ") else (")
        render_m(m[3], ind + 2, lines)
        lines.append(pad + ")")
    elif k == 'ifchain':
        arms = m[1]
        for i, (c, am) in enumerate(arms):
            if c is None:
                lines.append(pad + "(")
                render_m(am, ind + 2, lines)
                lines.append(pad + ")" * (1 + 0))
            else:
                lines.append(pad + "if %s then (" % c)
                render_m(am, ind + 2, lines)
                lines.append(pad + ") else")
    elif k == 'match':
        lines.append(pad + "match %s with" % m[1])
        for p, am in m[2]:
            lines.append(pad + "| %s => (" % p)
            render_m(am, ind + 4, lines)
            lines.append(pad + "  )")
        lines.append(pad + "end")
    else:
        raise AssertionError(m)


def render_run(body, lines, ret, st):
    _, runner, m, arg = body
    lines.append("  %s ((" % runner)
    render_m(m, 4, lines)
    lines.append("  ) : ctl %s %s %s)%s" % (st, ret, ret, (' ' + arg) if arg else ''))
