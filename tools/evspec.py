"""Failing-input search for the event decoder when its proofs break and neither model yields a witness
(hidden decoder state, tables unavailable): random event / mode-change sequences are run on the real
EventDecoder with the recording layout (harness `evseq`) and through the abstract decoder of
Spec/Event.v evaluated in Coq (`spec_run`); the first operation whose result or whose final modifier
record differs is the replay.  A search aid, never part of a proof."""
import os, re, json, subprocess
import seqgen, cexparse

FIELDS = ['lshift', 'rshift', 'lctrl', 'rctrl', 'numlock', 'capslock', 'lalt', 'ralt', 'rctrl2']
MODKEYS = ['LShift', 'RShift', 'LControl', 'RControl', 'LAlt', 'RAltGr', 'RControl2', 'CapsLock', 'NumpadLock']


def gen(seed, nseq, length, en):
    r = seqgen.Rng(seed ^ 0xE5)
    keys = en['KeyCode']
    mk = [keys.index(k) for k in MODKEYS]
    seqs = []
    for _ in range(nseq):
        mode = r.below(2)
        ops = []
        last = None
        while len(ops) < length:
            k = r.below(100)
            if k < 35:
                ops.append(('e', mk[r.below(len(mk))], r.below(2) if r.below(8) else 2))
            elif k < 50 and last is not None:
                ops.append(('e', last, 1))                    # the same key again (typematic repeat)
            elif k < 62:
                ops.append(('m', r.below(2)))
            else:
                last = r.below(len(keys))
                ops.append(('e', last, [1, 1, 1, 0, 2][r.below(5)]))
        seqs.append((mode, ops))
    return seqs


def run(pid, what, seed, ctx, nseq=400, length=60):
    """what: 'results' (C14) or 'state' (C04).  Returns a list of replay records (possibly empty) or None."""
    en = json.load(open(os.path.join(ctx.COQ, 'Gen', 'gen.json')))['enums']
    seqs = gen(seed, nseq, length, en)
    d = os.path.join(ctx.BUILD, 'seq')
    os.makedirs(d, exist_ok=True)
    txt = os.path.join(d, 'evseqs.txt')
    with open(txt, 'w') as f:
        for mode, ops in seqs:
            f.write('%d | %s\n' % (mode, ' '.join(('e%d:%d' % (o[1], o[2])) if o[0] == 'e' else ('m%d' % o[1]) for o in ops)))
    rc, out, dt = ctx.sh([ctx.HARNESS, 'evseq', txt], timeout=600)
    if rc != 0:
        return None
    rust = []
    for line in out.strip().split('\n'):
        res, fin = line.rsplit(' | ', 1)
        results = [[int(x) for x in t.split()] for t in res.split(' ; ')] if res.strip() else []
        mm = re.search(r'modifiers: Modifiers \{([^}]*)\}', fin)
        mods = mm.group(1) if mm else fin
        bits = sum(1 << i for i, f_ in enumerate(FIELDS) if re.search(r'\b%s: true' % f_, mods))
        hc = re.search(r'handle_ctrl: (\w+)', fin)
        rust.append((results, [bits, en['HandleControl'].index(hc.group(1)) if hc else 99]))
    # the abstract decoder, in Coq
    cdir = os.path.join(ctx.COQ, 'SeqCases')
    os.makedirs(cdir, exist_ok=True)
    src = ["From Coq Require Import NArith Bool List String.\nFrom PK Require Import Base.Outcome Gen.Types Impl Spec.Mods Check.EvImpl.\nImport ListNotations.\nLocal Open Scope N_scope.\n",
           "Definition mode_of (i : N) : HandleControl := match i with 0 => HandleControl_MapLettersToUnicode | _ => HandleControl_Ignore end.\n",
           "Definition key_of (i : N) : KeyCode := match KeyCode_of_tag i with Some k => k | None => KeyCode_Escape end.\n",
           "Definition kstate_of (i : N) : KeyState := match KeyState_of_tag i with Some s => s | None => KeyState_Up end.\n",
           "Definition enc_r (r : ev_res) : list N := match r with ERNone => [1] | ERRaw k => [2; KeyCode_tag k] | ERCons k m hc => [3; KeyCode_tag k; bits_of_mods m; HandleControl_tag hc] | EROther c => [4; c] end.\n",
           "Definition go (mode : N) (ops : list eop) := let '(s, rs) := spec_run (initial_mods, mode_of mode) ops in (map enc_r rs, [bits_of_mods (fst s); HandleControl_tag (snd s)]).\n"]
    for i, (mode, ops) in enumerate(seqs):
        body = '; '.join(('EEvent (KeyEvent_mk (key_of %d) (kstate_of %d))' % (o[1], o[2])) if o[0] == 'e' else ('EMode (mode_of %d)' % o[1]) for o in ops)
        src.append('Eval vm_compute in ("evseq"%%string, %d, go %d [%s]).\n' % (i, mode, body))
    open(os.path.join(cdir, 'EvSpec.v'), 'w').write(''.join(src))
    rc, o, dt = ctx.sh('ulimit -s unlimited 2>/dev/null; timeout 900 coqc -q -Q . PK SeqCases/EvSpec.v 2>&1', cwd=ctx.COQ, timeout=1000)
    if rc != 0:
        return None
    spec = {}
    for m in re.finditer(r'=\s*\("evseq"(?:%string)?,\s*(\d+)(?:%N)?,\s*(.*?)\)\s*\n\s*:\s', o, re.S):
        spec[int(m.group(1))] = cexparse.parse_term(m.group(2))
    reps = []
    for i, (mode, ops) in enumerate(seqs):
        if i not in spec:
            return None
        sres, sfin = spec[i][0], spec[i][1]
        rres, rfin = rust[i]
        # results: mode-change ops have no result on the Spec side; the harness prints 9 for them
        rres_ev = [x for x in rres if x != [9]]
        j = None
        if what == 'results':
            for k in range(min(len(sres), len(rres_ev))):
                if sres[k] != rres_ev[k]:
                    j = k
                    break
        else:
            if sfin != rfin and rfin != [0]:
                j = len(ops) - 1
        if j is None and rfin == [0] or (j is None and len(rres_ev) < len(sres)):
            j = len(rres_ev)   # the crate panicked
        if j is None:
            continue
        # map j (index among events) back to an op prefix
        cnt, cut = -1, len(ops)
        for idx, o_ in enumerate(ops):
            if o_[0] == 'e':
                cnt += 1
            if cnt == j or (what != 'results' and idx == len(ops) - 1):
                cut = idx + 1
                break
        prefix = ops[:cut]
        text = '%s | %s' % (en['HandleControl'][mode], ' '.join(('%s:%s' % (en['KeyCode'][o_[1]], en['KeyState'][o_[2]])) if o_[0] == 'e' else ('mode:%s' % en['HandleControl'][o_[1]]) for o_ in prefix))
        reps.append({'property': pid, 'kind': 'evseq', 'input_text': text,
                     'harness_cmd': ['replay', 'events', 'Us104Key', en['HandleControl'][mode]] + [t for t in text.split(' | ')[1].split(' ')],
                     'expected_encoded': sres[j] if what == 'results' and j < len(sres) else sfin,
                     'crate_encoded': rres_ev[j] if what == 'results' and j < len(rres_ev) else rfin,
                     'note': 'recording-layout encoding: [3; key; modifier bits; mode] = layout consulted with that triple; final = [modifier bits; mode]',
                     'confirmed_on_crate': True})
        if len(reps) >= 3:
            break
    return reps
