"""rs2v core: crate-wide tables (types, consts, traits, functions) and type utilities."""
import os
from rs_parse import parse_file, Unsupported, Node

INT_BITS = {'u8': 8, 'u16': 16, 'u32': 32, 'u64': 64, 'usize': 64, 'u128': 128}
IGNORED_TRAITS = {'Debug', 'Clone', 'Copy', 'PartialEq', 'Eq', 'PartialOrd', 'Ord', 'Hash', 'Sized', 'Send', 'Sync',
                  'Unpin', 'Default'}

# Python-side types:
#   ('int', bits) ('bool',) ('char',) ('unit',) ('never',) ('unknown',)
#   ('adt', name, (args...)) ('param', name) ('tuple', (elems...)) ('ref', inner)
T_BOOL, T_CHAR, T_UNIT, T_NEVER, T_UNKNOWN = ('bool',), ('char',), ('unit',), ('never',), ('unknown',)


def strip_ref(t):
    n = 0
    while t[0] == 'ref':
        t = t[1]
        n += 1
    return t, n


def coq_type(t):
    k = t[0]
    if k in ('int', 'char'):
        return 'N'
    if k == 'bool':
        return 'bool'
    if k == 'unit':
        return 'unit'
    if k == 'never':
        return 'unit'
    if k == 'unknown':
        return '_'
    if k == 'ref':
        return coq_type(t[1])
    if k == 'param':
        return t[1]
    if k == 'tuple':
        return '(' + ' * '.join(coq_type(e) for e in t[1]) + ')'
    if k == 'array':
        return '(list ' + coq_type(t[1]) + ')'
    if k == 'fnptr':
        return '(' + ' -> '.join([coq_type(a) for a in t[1]] + ['outcome ' + coq_type(t[2])]) + ')'
    if k == 'adt':
        name = {'Option': 'option'}.get(t[1], t[1])
        if not t[2]:
            return name
        return '(' + name + ' ' + ' '.join(coq_type(a) for a in t[2]) + ')'
    raise AssertionError(t)


def subst(t, s):
    k = t[0]
    if k == 'param':
        return s.get(t[1], t)
    if k == 'ref':
        return ('ref', subst(t[1], s))
    if k == 'tuple':
        return ('tuple', tuple(subst(e, s) for e in t[1]))
    if k == 'adt':
        return ('adt', t[1], tuple(subst(a, s) for a in t[2]))
    return t


def unify(pat, actual, s):
    """Bind type parameters of `pat` so that it matches `actual` (references are ignored)."""
    pat, _ = strip_ref(pat)
    actual, _ = strip_ref(actual)
    if pat[0] == 'param':
        if pat[1] not in s and actual[0] != 'unknown':
            s[pat[1]] = actual
        return
    if pat[0] == 'adt' and actual[0] == 'adt' and pat[1] == actual[1]:
        for a, b in zip(pat[2], actual[2]):
            unify(a, b, s)
    elif pat[0] == 'tuple' and actual[0] == 'tuple':
        for a, b in zip(pat[1], actual[1]):
            unify(a, b, s)


def merge_types(a, b):
    """Join of two branch types (never and unknown give way)."""
    if a[0] in ('never', 'unknown'):
        return b
    if b[0] in ('never', 'unknown'):
        return a
    if a[0] == 'adt' and b[0] == 'adt' and a[1] == b[1]:
        return ('adt', a[1], tuple(merge_types(x, y) for x, y in zip(a[2], b[2])))
    return a


class FnInfo:
    def __init__(self, **kw):
        self.__dict__.update(kw)


class Crate:
    def __init__(self, root):
        self.root = root
        self.structs = {}   # name -> Node(struct) + .file
        self.enums = {}
        self.consts = {}    # name -> (type, int value)
        self.traits = {}    # name -> {method: Node(fn)}
        self.fns = {}       # coq name -> FnInfo
        self.methods = {}   # (type name, nrefs, method) -> [FnInfo]   (inherent first, then trait impls)
        self.free_fns = {}  # name -> FnInfo
        self.impls = []     # (trait name or None, self type, file, line, attrs)
        self.files = []     # [(path, modkey)]
        self.rejected_items = {}
        self.unsupported_types = {}
        self.dropped_variants = {}   # name -> reason (fields outside the supported types)
        # rejected_items: description -> reason (items that could not even be declared)
        self.file_order = []
        self.raw_items = []
        self.load(os.path.join(root, 'src', 'lib.rs'), 'Lib')
        self.collect()

    # -- loading
    def load(self, path, key):
        items = parse_file(path)
        for line, msg in getattr(parse_file, 'skipped', {}).get(path, []):
            self.rejected_items['item at %s:%s' % (os.path.relpath(path, self.root), line)] = msg
        self.files.append((path, key))
        self.raw_items.append((path, key, items))
        d = os.path.dirname(path)
        base = os.path.basename(path)
        for it in items:
            if it.kind == 'mod' and it.items is None:
                sub = d if base in ('lib.rs', 'mod.rs', 'main.rs') else os.path.join(d, base[:-3])
                p1 = os.path.join(sub, it.name + '.rs')
                p2 = os.path.join(sub, it.name, 'mod.rs')
                if os.path.exists(p1):
                    self.load(p1, self.modkey(it.name))
                elif os.path.exists(p2):
                    self.load(p2, self.modkey(it.name))
                else:
                    raise Unsupported("module file for `%s` not found" % it.name, path, it.line)
            elif it.kind == 'mod':
                raise Unsupported("inline modules are not supported", path, it.line)

    def modkey(self, name):
        k = ''.join(p.capitalize() for p in name.split('_'))
        keys = [x[1] for x in self.files]
        while k in keys:
            k += '_'
        return k

    def dup(self, name, path, line):
        if name in self.structs or name in self.enums or name in self.traits or name in self.consts or name in self.free_fns:
            raise Unsupported("item name `%s` is defined twice in the crate (names are resolved crate-wide)" % name, path, line)

    def collect(self):
        for path, key, items in self.raw_items:
            for it in items:
                it.file, it.modkey = path, key
                if it.kind == 'struct':
                    self.dup(it.name, path, it.line)
                    self.structs[it.name] = it
                elif it.kind == 'enum':
                    self.dup(it.name, path, it.line)
                    self.enums[it.name] = it
                elif it.kind == 'trait':
                    self.dup(it.name, path, it.line)
                    self.traits[it.name] = it
        for n in ('Option', 'Result'):
            if n in self.structs or n in self.enums:
                raise Unsupported("crate redefines %s" % n)
        # types whose fields are outside the supported types are left out (with everything that uses them)
        changed = True
        while changed:
            changed = False
            for n, it in list(self.structs.items()) + list(self.enums.items()):
                if n in self.unsupported_types:
                    continue
                tps = [p for p, _ in it.params]
                try:
                    if it.kind == 'struct':
                        for _, t in it.fields:
                            self.conv_type(t, tps, it.file)
                    else:
                        # a variant whose payload is outside the supported types is left out of the MODEL
                        # (with every match arm on it): the model then speaks about the remaining variants only
                        # - e.g. about the ten shipped layouts when AnyLayout gains a `Custom(&dyn ..)` variant;
                        # Gen/Sigs.v (C20) still records the full declaration
                        if not hasattr(it, 'all_variants'):
                            it.all_variants = list(it.variants)
                        for v in list(it.variants):
                            try:
                                for t in v.payload:
                                    self.conv_type(t, tps, it.file)
                            except Unsupported as u:
                                if len(it.variants) > 1:
                                    it.variants.remove(v)
                                    self.dropped_variants.setdefault(n, {})[v.name] = str(u)
                                    changed = True
                                else:
                                    raise
                except Unsupported as u:
                    self.unsupported_types[n] = str(u)
                    changed = True
        for path, key, items in self.raw_items:
            for it in items:
                if it.kind == 'const':
                    self.dup(it.name, path, it.line)
                    try:
                        ty = self.conv_type(it.ty, {}, path)
                        self.consts[it.name] = (ty, self.const_eval(it.value, path), key)
                    except Unsupported as u:
                        self.rejected_items['const ' + it.name] = str(u)
        for path, key, items in self.raw_items:
            for it in items:
                if it.kind == 'fn':
                    self.dup(it.name, path, it.line)
                    try:
                        fi = self.mk_fn(it, None, None, [], path, key)
                        self.free_fns[it.name] = fi
                    except Unsupported as u:
                        self.rejected_items['fn ' + it.name] = str(u)
                elif it.kind == 'impl':
                    try:
                        self.collect_impl(it, path, key)
                    except Unsupported as u:
                        self.rejected_items['impl at %s:%s' % (os.path.relpath(path, self.root), it.line)] = str(u)

    BUILTIN_CONSTS = {('u8', 'BITS'): 8, ('u16', 'BITS'): 16, ('u32', 'BITS'): 32, ('u64', 'BITS'): 64, ('usize', 'BITS'): 64,
                      ('u8', 'MAX'): 255, ('u16', 'MAX'): 65535, ('u32', 'MAX'): 2 ** 32 - 1, ('u64', 'MAX'): 2 ** 64 - 1,
                      ('u8', 'MIN'): 0, ('u16', 'MIN'): 0, ('u32', 'MIN'): 0, ('u64', 'MIN'): 0}

    def const_eval(self, e, path):
        if e.kind == 'int':
            return e.value
        if e.kind == 'path' and len(e.segs) == 2 and (e.segs[0], e.segs[1]) in self.BUILTIN_CONSTS:
            return self.BUILTIN_CONSTS[(e.segs[0], e.segs[1])]
        if e.kind == 'path' and len(e.segs) >= 2 and (e.segs[-2] + '_' + e.segs[-1]) in self.consts:
            return self.consts[e.segs[-2] + '_' + e.segs[-1]][1]
        if e.kind == 'path' and len(e.segs) == 2 and e.segs[0] == 'Self' and getattr(self, '_const_owner', None) and (self._const_owner + '_' + e.segs[1]) in self.consts:
            return self.consts[self._const_owner + '_' + e.segs[1]][1]
        if e.kind == 'char':
            return e.value
        if e.kind == 'paren':
            return self.const_eval(e.e, path)
        if e.kind == 'path' and len(e.segs) == 1 and e.segs[0] in self.consts:
            return self.consts[e.segs[0]][1]
        if e.kind == 'binop' and e.op in ('+', '-', '*', '<<', '>>', '|', '&', '^'):
            a, b = self.const_eval(e.lhs, path), self.const_eval(e.rhs, path)
            return {'+': a + b, '-': a - b, '*': a * b, '<<': a << b, '>>': a >> b, '|': a | b, '&': a & b, '^': a ^ b}[e.op]
        if e.kind == 'cast':
            return self.const_eval(e.e, path)
        if e.kind == 'paren':
            return self.const_eval(e.e, path)
        if e.kind == 'array':
            return [self.const_eval(x, path) for x in e.elems]
        raise Unsupported("unsupported constant expression", path, e.line)

    # -- types
    def conv_type(self, ty, tparams, path, self_ty=None):
        if ty is None:
            return T_UNIT
        if ty.kind == 'tref':
            return ('ref', self.conv_type(ty.inner, tparams, path, self_ty))
        if ty.kind == 'ttuple':
            if not ty.elems:
                return T_UNIT
            return ('tuple', tuple(self.conv_type(e, tparams, path, self_ty) for e in ty.elems))
        if ty.kind == 'tnever':
            return T_NEVER
        if ty.kind == 'tarray':
            return ('array', self.conv_type(ty.elem, tparams, path, self_ty), self.const_eval(ty.len, path))
        if ty.kind == 'tslice':
            raise Unsupported("slice types are not supported", path, ty.line)
        if ty.kind == 'tdyn':
            raise Unsupported("dyn/impl types are not supported", path, ty.line)
        if ty.kind == 'tfn':
            if not ty.args:
                raise Unsupported("fn pointers without arguments are not supported", path, ty.line)
            return ('fnptr', tuple(self.conv_type(a, tparams, path, self_ty) for a in ty.args), self.conv_type(ty.ret, tparams, path, self_ty))
        name = ty.segs[-1]
        args = tuple(self.conv_type(a, tparams, path, self_ty) for a in ty.args)
        if len(ty.segs) == 1 or ty.segs[-2] in ('crate', 'super', 'self') or True:
            if name == 'Self':
                if self_ty is None:
                    raise Unsupported("`Self` outside an impl", path, ty.line)
                return self_ty
            if name in tparams and len(ty.segs) == 1:
                return ('param', name)
            if name in INT_BITS:
                return ('int', INT_BITS[name])
            if name == 'bool':
                return T_BOOL
            if name == 'char':
                return T_CHAR
            if name in ('Option', 'Result'):
                return ('adt', name, args)
            if name in self.unsupported_types:
                raise Unsupported("type `%s` is outside the supported subset (%s)" % (name, self.unsupported_types[name]), path, ty.line)
            if name in self.structs or name in self.enums:
                return ('adt', name, args)
        raise Unsupported("unknown or unsupported type `%s`" % '::'.join(ty.segs), path, ty.line)

    def bounds_of(self, params, path, line):
        """[(param, [trait names defined in this crate])]"""
        out = []
        for n, bs in params:
            ts = []
            for b in bs:
                if b.kind != 'tpath':
                    raise Unsupported("unsupported bound", path, line)
                t = b.segs[-1]
                if t in self.traits:
                    if t not in ts:
                        ts.append(t)
                elif t not in IGNORED_TRAITS:
                    raise Unsupported("unknown trait bound `%s`" % t, path, line)
            out.append((n, ts))
        return out

    def collect_impl(self, it, path, key):
        tparams = [n for n, _ in it.params]
        self_ty = self.conv_type(it.ty, tparams, path)
        base, nrefs = strip_ref(self_ty)
        if base[0] != 'adt' or base[1] in ('Option', 'Result'):
            raise Unsupported("impl for a non-crate type", path, it.line)
        trait = None
        if it.trait is not None:
            trait = it.trait.segs[-1]
            if trait not in self.traits and trait not in IGNORED_TRAITS:
                raise Unsupported("impl of unknown trait `%s`" % trait, path, it.line)
        self.impls.append((trait, self_ty, path, it.line, it.attrs))
        # associated constants become crate constants named Type_NAME
        for cn in getattr(it, 'consts', []):
            self._const_owner = base[1]
            cty = self.conv_type(cn.ty, tparams, path, self_ty)
            self.consts[base[1] + '_' + cn.name] = (cty, self.const_eval(cn.value, path), key)
        bounds = self.bounds_of(it.params, path, it.line)
        for f in it.fns:
            try:
                fi = self.mk_fn(f, self_ty, trait, bounds, path, key)
            except Unsupported as u:
                self.rejected_items['%s::%s' % (base[1], f.name)] = str(u)
                continue
            lst = self.methods.setdefault((base[1], nrefs, f.name), [])
            if trait is None:
                lst.insert(0, fi)
            else:
                lst.append(fi)

    def mk_fn(self, f, self_ty, trait, impl_bounds, path, key):
        if f.body is None and trait is None and self_ty is not None and not f.rejected:
            raise Unsupported("function without body", path, f.line)
        own = self.bounds_of(f.params, path, f.line)
        bounds = list(impl_bounds) + own
        tparams = [n for n, _ in bounds]
        args = []
        for pat, ty in f.args:
            if pat.kind == 'ppath' and len(pat.segs) == 1:
                an = pat.segs[0]
            elif pat.kind == 'pwild':
                an = '_'
            else:
                raise Unsupported("unsupported parameter pattern", path, f.line)
            args.append((an, self.conv_type(ty, tparams, path, self_ty)))
        ret = self.conv_type(f.ret, tparams, path, self_ty)
        if self_ty is None:
            cname = f.name
        else:
            base, nrefs = strip_ref(self_ty)
            cname = ('Ref' * nrefs) + base[1] + '_' + f.name
        while cname in self.fns:
            cname += '_' + (trait or 'x')
        fi = FnInfo(name=f.name, coq=cname, node=f, self_ty=self_ty, trait=trait, bounds=bounds, args=args, ret=ret,
                    self_kind=f.self_kind, file=path, modkey=key, is_const=f.is_const, pub=f.pub, deps=set())
        self.fns[cname] = fi
        return fi

    def trait_impl(self, trait, ty):
        """Find `impl trait for ty` exactly (same number of references)."""
        base, n = strip_ref(ty)
        for (tr, sty, path, line, attrs) in self.impls:
            b2, n2 = strip_ref(sty)
            if tr == trait and b2[0] == 'adt' and base[0] == 'adt' and b2[1] == base[1] and n == n2:
                return sty
        return None
