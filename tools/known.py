"""KNOWN_FINDINGS.txt: committed, never written at run time.

  open: property=C02 witness=1,112 <text>
  fixed: property=C09 <commit> <text>

Only `open` lines feed Spec/Known.v (the lists the property theorems except); `fixed` lines suppress nothing."""
import re, os

PIDS = ['C%02d' % i for i in range(1, 21)]


def load(path):
    out = []
    if not os.path.exists(path):
        return out
    for line in open(path, encoding='utf-8'):
        line = line.strip()
        if not line or line.startswith('#'):
            continue
        m = re.match(r'^(open|fixed):\s+property=(C\d\d)\s+(.*)$', line)
        if not m:
            raise ValueError("bad line in KNOWN_FINDINGS.txt: " + line)
        status, pid, rest = m.groups()
        ent = {'status': status, 'property': pid, 'text': rest}
        if status == 'open':
            mw = re.match(r'^witness=([0-9,]+)\s+(.*)$', rest)
            if not mw:
                raise ValueError("open finding without witness=: " + line)
            ent['witness'] = mw.group(1)
            ent['text'] = rest
        out.append(ent)
    return out


def write_known_v(path, out):
    from rs2v import write_if_changed
    kn = load(path)
    s = ["(* generated from KNOWN_FINDINGS.txt (open entries only) - do not edit *)\n",
         "From Coq Require Import NArith List.\nImport ListNotations.\nLocal Open Scope N_scope.\n"]
    for pid in PIDS:
        ws = [k['witness'] for k in kn if k['status'] == 'open' and k['property'] == pid]
        s.append("Definition known_%s : list (list N) := [%s].\n" % (pid, '; '.join('[' + w.replace(',', '; ') + ']' for w in ws)))
    os.makedirs(os.path.dirname(out), exist_ok=True)
    write_if_changed(out, ''.join(s))
